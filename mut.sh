#!/bin/bash
# usage: mut.sh '<sed-expression>' <file-relative-to-repo> <govc-subcommand> <args...>
# Development aid: copies /repo's working tree (with uncommitted contracts) to a scratch directory,
# applies one sed edit, runs govc against the copy (GOVC_REPO, outputs redirected), removes the copy.
set -u
expr=$1; file=$2; shift 2
d=/tmp/mut-$$; mkdir -p $d/repo $d/out
rsync -a --exclude .git /repo/ $d/repo/
before=$(md5sum $d/repo/$file | cut -d' ' -f1)
sed -i "$expr" $d/repo/$file
after=$(md5sum $d/repo/$file | cut -d' ' -f1)
[ "$before" = "$after" ] && echo "MUTATION DID NOT CHANGE $file"
(cd $d/repo && GOFLAGS=-mod=mod GOPROXY=off GOSUMDB=off go build ./... 2>&1 | head -5)
cd /verif && GOVC_REPO=$d/repo GOVC_OUT=$d/out ./bin/govc "$@"
rc=$?
rm -rf $d
exit $rc
