#!/bin/bash
# usage: seedcheck.sh <seed-name> <property>
# Re-runs the framework part of a seed test (the scratch worktree is gone): applies the stored
# patch to /repo, runs the property's quick check (evidence file preserved), reverts /repo and
# records the outcome under "framework_recheck" in meta.json.
set -u
name=$1; prop=$2; out=/verif/seeded/$name
cd /repo && test -z "$(git status --short)" || { echo "/repo not clean"; exit 2; }
git apply $out/patch.diff || { echo "patch does not apply to /repo"; exit 2; }
cp /verif/evidence/$prop.json /tmp/evidence_$prop.bak 2>/dev/null
cd /verif && ./bin/govc check $prop --tier quick > $out/recheck.log 2>&1; rc=$?
cp /tmp/evidence_$prop.bak /verif/evidence/$prop.json 2>/dev/null; rm -f /tmp/evidence_$prop.bak
git -C /repo checkout -- .
grep "^VIOLATION" $out/recheck.log | head -4; tail -1 $out/recheck.log; echo "check exit=$rc"
python3 - <<PY
import json
p="$out/meta.json"; m=json.load(open(p))
m["framework_recheck"]={"check":"./bin/govc check $prop --tier quick","exit":$rc,"violations":[l.strip() for l in open("$out/recheck.log") if l.startswith("VIOLATION")][:6]}
json.dump(m,open(p,"w"),indent=1)
PY
