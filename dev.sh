#!/bin/bash
# development aid: run govc (the dev build) against the working copy /tmp/dev/repo without touching /repo or /verif outputs
cd /verif/engine && GOFLAGS=-mod=vendor GOPROXY=off GOSUMDB=off GOTOOLCHAIN=local go build -o ../bin/govc-dev . || exit 2
cd /verif && GOVC_REPO=/tmp/dev/repo GOVC_OUT=/tmp/dev/out ./bin/govc-dev "$@"
