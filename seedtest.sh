#!/bin/bash
# usage: seedtest.sh <seed-name> <property> <worktree> [demo-pkg-dir]
# Confirms a seeded change in its scratch worktree, then applies it to /repo, runs the
# property's quick check, and reverts /repo. Results go to /verif/seeded/<seed-name>/.
set -u
name=$1; prop=$2; wt=$3; pkg=${4:-.}
export GOFLAGS=-mod=mod GOPROXY=off GOSUMDB=off GOTOOLCHAIN=local
out=/verif/seeded/$name
mkdir -p $out
cp $wt/_seed/patch.diff $wt/_seed/demo_test.go $out/ 2>/dev/null
cp $wt/_seed/meta.json $out/meta.agent.json 2>/dev/null
cd $wt || exit 2
git stash -q 2>/dev/null; git checkout -q -- . 2>/dev/null; git stash drop -q 2>/dev/null
git status --short | grep -v _seed | head -3
# clean tree: demo must pass
cp _seed/demo_test.go $pkg/zz_seed_demo_test.go
go test -count=1 -vet=off -run 'TestSeedDemo' ./$pkg > $out/demo_without.log 2>&1; rc_without=$?
git apply _seed/patch.diff || { echo "patch does not apply"; exit 2; }
go build ./... > $out/build.log 2>&1; rc_build=$?
go test -count=1 -vet=off -run 'TestSeedDemo' ./$pkg > $out/demo_with.log 2>&1; rc_with=$?
rm -f $pkg/zz_seed_demo_test.go
go test -count=1 -vet=off . ./internal/... ./test/... > $out/suite_with.log 2>&1; rc_suite=$?
git checkout -q -- .
echo "worktree: build=$rc_build suite_with_change=$rc_suite demo_with_change=$rc_with (want !=0) demo_without=$rc_without (want 0)"
# now the framework
cd /repo && test -z "$(git status --short)" || { echo "/repo not clean"; exit 2; }
git apply $out/patch.diff || { echo "patch does not apply to /repo"; exit 2; }
cp /verif/evidence/$prop.json /tmp/evidence_$prop.bak 2>/dev/null
cd /verif && ./bin/govc check $prop --tier quick > $out/check.log 2>&1; rc_check=$?
cp /tmp/evidence_$prop.bak /verif/evidence/$prop.json 2>/dev/null; rm -f /tmp/evidence_$prop.bak
git -C /repo checkout -- .
grep -c "^VIOLATION" $out/check.log | sed 's/^/violations reported: /'
grep "^VIOLATION" $out/check.log | head -3
tail -1 $out/check.log
echo "check exit=$rc_check"
python3 - <<PY
import json
m={"seed":"$name","property":"$prop","confirmed":{"build_ok":$rc_build==0,"suite_passes_with_change":$rc_suite==0,"demo_fails_with_change":$rc_with!=0,"demo_passes_without_change":$rc_without==0},
 "framework":{"check":"./bin/govc check $prop --tier quick","exit":$rc_check,"violations":[l.strip() for l in open("$out/check.log") if l.startswith("VIOLATION")][:6]},
 "ran":["go build ./...","go test -count=1 -vet=off . ./internal/... ./test/...","go test -run TestSeedDemo ./$pkg (with and without the change)","git -C /repo apply patch.diff; ./bin/govc check $prop; git -C /repo checkout -- ."]}
try:
    a=json.load(open("$out/meta.agent.json")); m["summary"]=a.get("summary"); m["needs"]=a.get("needs")
except Exception as e: pass
json.dump(m,open("$out/meta.json","w"),indent=1)
PY
