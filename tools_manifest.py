#!/usr/bin/env python3
# Regenerates /verif/MANIFEST.json from the table below (kept in one place so that
# the claimed / not-applicable split is always consistent with DESIGN.md section 6).
import json, subprocess
props=[json.loads(l) for l in open('/verif/properties.jsonl')]
baseline=json.load(open('/root/.vp/BASELINE.json'))["cmd"]
commits=subprocess.run(["git","-C","/repo","log","--format=%H %s"],capture_output=True,text=True).stdout.strip().split("\n")
hook_commits=[c.split()[0] for c in commits if c.split(" ",1)[1].startswith("verif:")]
CLAIMED=json.load(open('/verif/claims.json'))
NA=json.load(open('/verif/not_applicable.json'))
checks=[]
for pid,c in sorted(CLAIMED.items()):
    checks.append({
      "property_id":pid,
      "quick_cmd":f"./bin/govc check {pid} --tier quick",
      "thorough_cmd":f"./bin/govc check {pid} --tier thorough",
      "evidence_file":f"/verif/evidence/{pid}.json",
      "replay_cmd_template":"./bin/govc replay {path}",
      "engine":"govc",
      "level_claimed":{"category":"proof","text":c["text"],"design_ref":c.get("design_ref","DESIGN.md section 6")},
      "level_note":c["note"],
      "technique":c.get("technique","contract-based deductive verification: weakest-precondition VCs generated from go/ssa of the real code, contracts in //@ comments, discharged by z3/z3-new/cvc5"),
    })
na=[{"property_id":p["id"],"reason":NA.get(p["id"],"not yet claimed: contracts for this property are not in place in this commit (see DESIGN.md section 6)")} for p in props if p["id"] not in CLAIMED]
m={"version":1,
 "setup_cmd":"cd /verif/engine && GOFLAGS=-mod=vendor GOPROXY=off GOSUMDB=off GOTOOLCHAIN=local go build -o ../bin/govc .",
 "hooks":{"guard":"verif","enable":"-tags verif (comment-only contract files zz_verif_contracts.go; no executable hook)","baseline_off_cmd":baseline,"source_commits":hook_commits,"add_only":True},
 "engines":[{"name":"govc","path":"engine","serves_properties":sorted(CLAIMED.keys()),"kind_free_text":"self-written weakest-precondition VC generator over go/ssa of the real /repo tree; contracts in //@ comments in /repo/**/zz_verif_contracts.go; obligations discharged by z3 4.8.12 / z3-new 5.1.0 / cvc5 1.0 (first unsat wins)"}],
 "checks":checks,
 "not_applicable":na,
 "notes":"See DESIGN.md. Known genuine defects are in known_findings.json; seeded changes in seeded/."}
json.dump(m,open('/verif/MANIFEST.json','w'),indent=1)
print("checks:",[c["property_id"] for c in checks])
