#!/bin/bash
# usage: seedconfirm.sh <seed-name> <property> <worktree> [demo-pkg-dir]
# Part 1 of a seed test: confirms in the sub-agent's scratch worktree that the change compiles, the existing suite
# passes with it, and the demonstration fails with it and passes without it. Stores patch, demo and meta.json under
# /verif/seeded/<seed-name>/. (Part 2, the framework run, is seedwt.sh: it never touches /repo.)
set -u
name=$1; prop=$2; wt=$3; pkg=${4:-.}
export GOFLAGS=-mod=mod GOPROXY=off GOSUMDB=off GOTOOLCHAIN=local
out=/verif/seeded/$name
mkdir -p $out
cp $wt/_seed/patch.diff $wt/_seed/demo_test.go $out/ 2>/dev/null
cp $wt/_seed/meta.json $out/meta.agent.json 2>/dev/null
cp $wt/_seed/observations.md $out/observations.md 2>/dev/null
cd $wt || exit 2
git checkout -q -- . 2>/dev/null
git status --short | grep -v _seed | head -3
cp _seed/demo_test.go $pkg/zz_seed_demo_test.go
go test -count=1 -vet=off -timeout 300s -run 'TestSeedDemo' ./$pkg > $out/demo_without.log 2>&1; rc_without=$?
git apply _seed/patch.diff || { echo "patch does not apply"; exit 2; }
go build ./... > $out/build.log 2>&1; rc_build=$?
go test -count=1 -vet=off -timeout 300s -run 'TestSeedDemo' ./$pkg > $out/demo_with.log 2>&1; rc_with=$?
rm -f $pkg/zz_seed_demo_test.go
go test -count=1 -vet=off -timeout 25m . ./internal/... ./test/... > $out/suite_with.log 2>&1; rc_suite=$?
git checkout -q -- .
echo "$name: build=$rc_build suite_with_change=$rc_suite demo_with_change=$rc_with (want !=0) demo_without=$rc_without (want 0)"
python3 - <<PY
import json
m={"seed":"$name","property":"$prop","confirmed":{"build_ok":$rc_build==0,"suite_passes_with_change":$rc_suite==0,"demo_fails_with_change":$rc_with!=0,"demo_passes_without_change":$rc_without==0},
 "ran":["go build ./...","go test -count=1 -vet=off . ./internal/... ./test/...","go test -run TestSeedDemo ./$pkg (with and without the change)","seedwt.sh: patch applied to a scratch worktree of /repo HEAD; ./bin/govc check $prop --tier quick against it"]}
try:
    a=json.load(open("$out/meta.agent.json")); m["summary"]=a.get("summary"); m["needs"]=a.get("needs")
except Exception as e: pass
json.dump(m,open("$out/meta.json","w"),indent=1)
PY
