#!/bin/bash
# Runs every claimed check (quick tier) on the current /repo tree and validates the evidence files.
cd /verif
ids=$(python3 -c "import json; print(' '.join(c['property_id'] for c in json.load(open('MANIFEST.json'))['checks']))")
rc=0
for id in $ids; do
  out=$(./bin/govc check $id --tier ${1:-quick} 2>&1); r=$?
  echo "$out" | tail -1
  if [ $r -ne 0 ]; then rc=1; echo "$out" | grep "^VIOLATION" | head -5; fi
done
python3-vt - <<'PY'
import json,jsonschema,glob
sch=json.load(open('/root/.vp/EVIDENCE.schema.json'))
for f in sorted(glob.glob('/verif/evidence/*.json')):
    d=json.load(open(f)); jsonschema.validate(d,sch)
    c=d['coverage']
    assert c['obligations']==c['discharged'], f
print("evidence files valid:", len(glob.glob('/verif/evidence/*.json')))
jsonschema.validate(json.load(open('/verif/MANIFEST.json')), json.load(open('/root/.vp/MANIFEST.schema.json')))
PY
exit $rc
