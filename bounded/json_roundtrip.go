package json

// Bounded stand-in (labelled bounded, never counted as proved) for the parts of C04 that
// are not integers or strings: floats, booleans, byte slices, slices, arrays, maps with
// string and integer keys, structs (embedded, omitempty, string-tagged), pointers and
// interfaces holding JSON-natural values. Each value of a bounded family is sent through
// Marshal, MarshalIndent, MarshalNoEscape and Encoder, decoded with Unmarshal and Decoder
// into a fresh value of the same type, and compared with reflect.DeepEqual.

import (
	"bytes"
	"fmt"
	"math"
	"os"
	"reflect"
	"sort"
	"strconv"
	"strings"
	"testing"
)

type govcRTEmbedded struct {
	X int     `json:"x"`
	Y *string `json:"y,omitempty"`
}

type govcRTInner struct {
	F32 float32            `json:"f32"`
	F64 float64            `json:"f64,omitempty"`
	B   bool               `json:"b"`
	Bs  []byte             `json:"bs"`
	Is  []int8             `json:"is"`
	Arr [3]uint16          `json:"arr"`
	M   map[string]float64 `json:"m"`
	MI  map[int16]string   `json:"mi"`
	MU  map[uint64]bool    `json:"mu"`
	P   *float64           `json:"p"`
	PP  **int              `json:"pp"`
	Any interface{}        `json:"any"`
	S   string             `json:"s,string"`
	N   int64              `json:"n,string"`
	Fs  float64            `json:"fs,string"`
	Bo  bool               `json:"bo,string"`
}

type govcRTOuter struct {
	govcRTEmbedded
	In   govcRTInner            `json:"in"`
	PIn  *govcRTInner           `json:"pin"`
	List []govcRTInner          `json:"list"`
	Map  map[string]govcRTInner `json:"map"`
	Nest [][]map[string][]bool  `json:"nest"`
	Last float64                `json:"last"`
}

func TestGovcBounded(t *testing.T) {
	classes := map[string]string{}
	record := func(class, what string) {
		if _, ok := classes[class]; !ok {
			classes[class] = what
		}
	}
	n := 0
	roundTrip := func(family string, v interface{}) {
		typ := reflect.TypeOf(v)
		for mode := 0; mode < 5; mode++ {
			n++
			var text []byte
			var err error
			back := reflect.New(typ)
			name := []string{"Marshal", "MarshalIndent", "MarshalNoEscape", "Encoder-Decoder", "EncoderIndent-Decoder"}[mode]
			switch mode {
			case 0:
				if text, err = Marshal(v); err == nil {
					err = Unmarshal(text, back.Interface())
				}
			case 1:
				if text, err = MarshalIndent(v, " ", "\t"); err == nil {
					err = Unmarshal(text, back.Interface())
				}
			case 2:
				if text, err = MarshalNoEscape(v); err == nil {
					err = UnmarshalNoEscape(text, back.Interface())
				}
			default:
				var buf bytes.Buffer
				enc := NewEncoder(&buf)
				if mode == 4 {
					enc.SetIndent("", "  ")
				}
				if err = enc.Encode(v); err == nil {
					text = append([]byte{}, buf.Bytes()...)
					err = NewDecoder(&buf).Decode(back.Interface())
				}
			}
			cls := family + "-" + name
			if strings.HasPrefix(family, "one-cause:") {
				cls = strings.TrimPrefix(family, "one-cause:") // one root cause whatever the entry point
			}
			if err != nil {
				record("round-trip-error-"+cls, fmt.Sprintf("%#v: text %.300q: %v", v, text, err))
			} else if !reflect.DeepEqual(back.Elem().Interface(), v) {
				record("round-trip-differs-"+cls, fmt.Sprintf("%#v: text %.300q decodes to %#v", v, text, back.Elem().Interface()))
			}
		}
	}
	// floats: boundaries of the two output formats (exponent < -6 or >= 21), of the types, and of the shortest representation
	f64s := []float64{0, 1, -1, 0.1, 0.5, 1.5, 100, 1e-6, 1e-7, 9.999999e-7, 1e20, 1e21, 9.99999999999999e20, 123456789012345678, 1 << 53, 1<<53 + 2, 1e22, 1e23, 5e-324, 2.2250738585072014e-308, 2.225073858507201e-308,
		math.MaxFloat64, -math.MaxFloat64, math.MaxFloat32, math.SmallestNonzeroFloat32, 3.4028235e38, 1e100, 1e-100, 0.000001, 0.0000001, 4.9406564584124654e-324, 1.7976931348623157e308, 8.41e21, 2.5e-8, 1e5, 1e-5, 12345.678, -0.000123, 100000000000000000000, 1000000000000000000000,
		float64(float32(0.1)), float64(float32(16777216)), float64(float32(16777217)), 0.3, 2.0 / 3.0, math.Pi, math.E, math.Sqrt2, math.Copysign(0, -1)}
	for _, f := range f64s {
		for _, g := range []float64{f, -f, math.Nextafter(f, math.Inf(1)), math.Nextafter(f, math.Inf(-1))} {
			if math.IsInf(g, 0) || math.IsNaN(g) {
				continue
			}
			if g == 0 {
				g = 0 // JSON has no negative zero that survives DeepEqual of the bits? DeepEqual(-0, 0) is true for floats
			}
			roundTrip("float64", g)
			roundTrip("float64-ptr", &g)
			roundTrip("float64-slice", []float64{g, g})
			roundTrip("float64-map-value", map[string]float64{"k": g})
			roundTrip("float64-iface", []interface{}{g})
			roundTrip("float64-string-tag", struct {
				F float64 `json:"f,string"`
			}{g})
			if h := float32(g); !math.IsInf(float64(h), 0) {
				roundTrip("float32", h)
				roundTrip("float32-field", struct {
					A float32 `json:"a"`
					B float32 `json:"b,omitempty"`
				}{h, h})
				roundTrip("float32-slice", []float32{h})
				roundTrip("float32-map-value", map[string]float32{"k": h})
				roundTrip("float32-ptr", &h)
			}
		}
	}
	// float32 values that sit next to a rounding boundary of float64 (double rounding shows here), plus a seeded sample
	f32bits := []uint32{0x15ae43fd, 0x95ae43fd, 0x00000001, 0x007fffff, 0x00800000, 0x7f7fffff, 0x3f800001, 0x4b800001, 0x5e7fffff}
	seed := uint32(12345)
	if sd, err := strconv.Atoi(os.Getenv("VERIF_SEED")); err == nil {
		seed += uint32(sd)
	}
	samples := 20000
	if os.Getenv("GOVC_TIER") == "thorough" {
		samples = 400000
	}
	for i := 0; i < samples; i++ {
		seed = seed*1664525 + 1013904223
		f32bits = append(f32bits, seed)
	}
	for i, b := range f32bits {
		h := math.Float32frombits(b)
		if math.IsInf(float64(h), 0) || h != h {
			continue
		}
		if i < 9 {
			roundTrip("float32", h)
			roundTrip("float32-slice", []float32{h})
			continue
		}
		// the sample goes through Marshal/Unmarshal only
		n++
		text, err := Marshal(h)
		var back float32
		if err == nil {
			err = Unmarshal(text, &back)
		}
		if err != nil || back != h {
			record("round-trip-differs-float32-Marshal", fmt.Sprintf("float32 bits %#x: text %s decodes to bits %#x (%v)", b, text, math.Float32bits(back), err))
		}
	}
	// byte slices: every length 0..9 and a few long ones, all byte classes
	for l := 0; l <= 9; l++ {
		for _, fill := range []byte{0, 1, '"', '\\', 0x7f, 0x80, 0xfb, 0xff} {
			b := make([]byte, l)
			for i := range b {
				b[i] = fill + byte(i)*37
			}
			roundTrip("bytes", b)
			var c []byte // an omitted member decodes to nil: an empty non-nil slice under omitempty is outside the property
			if l > 0 {
				c = b
			}
			roundTrip("bytes-field", struct {
				A []byte  `json:"a"`
				B *[]byte `json:"b"`
				C []byte  `json:"c,omitempty"`
			}{b, &b, c})
			roundTrip("bytes-slice", [][]byte{b, b})
			roundTrip("bytes-map", map[string][]byte{"k": b})
		}
	}
	for _, l := range []int{63, 64, 65, 255, 256, 1000, 4097} {
		b := make([]byte, l)
		for i := range b {
			b[i] = byte(i * 7)
		}
		roundTrip("bytes-long", b)
	}
	// booleans, maps with integer keys, arrays, pointers, nested containers
	for _, b := range []bool{true, false} {
		roundTrip("bool", b)
		roundTrip("bool-ptr", &b)
		roundTrip("bool-slice", []bool{b, !b, b})
		roundTrip("bool-string-tag", struct {
			B bool `json:"b,string"`
		}{b})
		roundTrip("bool-map", map[string]bool{"": b, "k": !b})
	}
	roundTrip("map-int-keys", map[int]string{0: "z", -1: "m", 1 << 40: "big", math.MinInt64: "min", math.MaxInt64: "max"})
	roundTrip("map-int8-keys", map[int8]int{-128: 1, 127: 2, 0: 3})
	roundTrip("map-uint-keys", map[uint]int{0: 1, math.MaxUint64: 2, 1 << 32: 3})
	roundTrip("map-uint8-keys", map[uint8][]int{255: {1}, 0: {}})
	roundTrip("map-string-keys", map[string]map[string]int{"": {"": 0}, "a\"b": {"\\": 1}, "é ": {"<&>": 2}})
	roundTrip("map-empty", map[string]int{})
	roundTrip("slice-empty", []int{})
	roundTrip("slice-of-empty", [][]int{{}, {}, {1}})
	roundTrip("array", [4]int32{math.MinInt32, -1, 0, math.MaxInt32})
	roundTrip("array-of-arrays", [2][2]string{{"a", ""}, {"\n", "\x00"}})
	roundTrip("array-zero-length", [0]int{})
	roundTrip("iface-natural", []interface{}{nil, true, false, 1.5, -2.0, 1e21, "s", []interface{}{}, map[string]interface{}{}, map[string]interface{}{"a": []interface{}{map[string]interface{}{"b": nil}}}})
	roundTrip("iface-map", map[string]interface{}{"n": nil, "f": 0.1, "s": "\"", "l": []interface{}{1.0, "2"}, "m": map[string]interface{}{"": ""}})
	// a struct whose only field is a pointer is stored directly in an interface word: the pointer depths 1 and 2
	{
		n7 := 7
		p7 := &n7
		roundTrip("only-field-pointer-by-value", struct{ P *int }{p7})
		roundTrip("one-cause:only-field-double-pointer-by-value", struct{ P **int }{&p7})
		roundTrip("only-field-double-pointer-by-pointer", &struct{ P **int }{&p7})
		roundTrip("double-pointer-field-after-another", struct {
			A int
			P **int
		}{1, &p7})
	}
	// structs
	str := "y\n"
	i7 := 7
	pi7 := &i7
	f := 2.5e-9
	mk := func(k int) govcRTInner {
		in := govcRTInner{F32: float32(k) / 3, F64: float64(k) * 1e21, B: k%2 == 0, Bs: []byte{byte(k), 0xff}, Is: []int8{-128, int8(k), 127}, Arr: [3]uint16{0, uint16(k), 65535},
			M: map[string]float64{"a": float64(k) / 7, "": -1e-7}, MI: map[int16]string{-32768: "lo", int16(k): "k", 32767: "hi"}, MU: map[uint64]bool{math.MaxUint64: true, uint64(k): false},
			S: fmt.Sprintf("s%d\"\\<", k), N: math.MinInt64 + int64(k), Fs: float64(k) + 0.25, Bo: k%3 == 0}
		switch k % 4 {
		case 0:
			in.Any = map[string]interface{}{"k": []interface{}{float64(k), "v", nil, true}}
		case 1:
			in.Any = "str"
			in.P = &f
			in.PP = &pi7
		case 2:
			in.Any = float64(k)
			in.Bs = []byte{}
			in.Is = []int8{}
			in.M = map[string]float64{}
		default:
			in.Any = nil
			in.P = &f
		}
		return in
	}
	for k := 0; k < 8; k++ {
		in := mk(k)
		roundTrip("struct-inner", in)
		roundTrip("struct-inner-ptr", &in)
		out := govcRTOuter{govcRTEmbedded: govcRTEmbedded{X: k}, In: in, List: []govcRTInner{mk(k + 1), mk(k + 2)}, Map: map[string]govcRTInner{"a": mk(k + 3), "": mk(k + 4)},
			Nest: [][]map[string][]bool{{{"t": {true}}, {}}, {}, {{"": {}}}}, Last: float64(k) / 10}
		if k%2 == 1 {
			out.Y = &str
			pin := mk(k + 5)
			out.PIn = &pin
		}
		roundTrip("struct-outer", out)
		roundTrip("struct-outer-slice", []govcRTOuter{out, out})
		roundTrip("struct-outer-map", map[string]*govcRTOuter{"o": &out})
	}
	var ks []string
	for k := range classes {
		ks = append(ks, k)
	}
	sort.Strings(ks)
	for _, k := range ks {
		fmt.Printf("BOUNDED-CLASS %s example: %s\n", k, classes[k])
	}
	fmt.Printf("BOUNDED-OK round trip of non-integer, non-string values: float32 boundary witnesses and a seeded sample, %d float64 seeds with neighbours (and as float32) in 11 positions, byte slices of length 0..9 over 8 byte classes plus long ones, booleans, integer-keyed maps, arrays, JSON-natural interfaces, nested structs with embedded/omitempty/string-tagged/pointer fields, through Marshal, MarshalIndent, MarshalNoEscape, Encoder/Decoder (plain and indented): %d round trips, %d disagreement classes\n", len(f64s), n, len(ks))
}
