package json

// Bounded stand-in (labelled bounded, never counted as proved) for the part of
// C09 that the refill-core contracts do not reach: every stream-mode scanner's
// refill-and-retry branch. For a corpus of documents, destination types and
// chunkings (every single cut, every pair of cuts for short documents, fixed
// piece sizes 1..17) Decoder.Decode on the chunked reader is compared with
// Decoder.Decode on the whole document in one piece (chunk independence) and
// with Unmarshal (stream = buffer, for single-value documents). Disagreements
// are grouped into classes named after the destination and the kind of token
// the first cut falls into, so that a listed finding cannot hide a different one.

import (
	"bytes"
	"errors"
	"fmt"
	"io"
	"os"
	"reflect"
	"sort"
	"strings"
	"testing"
	"unicode/utf8"
)

type govcChunkReader struct {
	data []byte
	cuts []int // ascending positions; the reader never returns bytes across a cut
	pos  int
	fail int // position at which a non-EOF error is injected (-1: none)
}

var errGovcInjected = errors.New("injected reader failure")

func (r *govcChunkReader) Read(p []byte) (int, error) {
	if r.fail >= 0 && r.pos >= r.fail {
		return 0, errGovcInjected
	}
	if r.pos >= len(r.data) {
		return 0, io.EOF
	}
	end := len(r.data)
	for _, c := range r.cuts {
		if c > r.pos {
			end = c
			break
		}
	}
	if r.fail >= 0 && r.fail > r.pos && r.fail < end {
		end = r.fail
	}
	n := copy(p, r.data[r.pos:end])
	r.pos += n
	return n, nil
}

type govcStreamDst struct {
	name string
	mk   func() interface{}
}

type govcStruct struct {
	A  int               `json:"a"`
	Bc string            `json:"bc"`
	D  []int             `json:"d"`
	E  map[string]string `json:"e"`
	F  *bool             `json:"f"`
	G  float64           `json:"g"`
	H  *govcStruct       `json:"h,string"`
}

type govcStruct10 struct {
	Pad     string            `json:"pad"`
	Bravo   int               `json:"bravo"`
	Charlie string            `json:"charlie"`
	Delta   []int             `json:"delta"`
	Echo    map[string]string `json:"echo"`
	Foxtrot *bool             `json:"foxtrot"`
	Golf    float64           `json:"golf"`
	Hotel   interface{}       `json:"hotel"`
	India   int               `json:"india"`
	Juliett int               `json:"juliett"`
}

type govcStruct6 struct {
	Pad     string      `json:"pad"`
	Bravo   int         `json:"bravo"`
	Charlie string      `json:"charlie"`
	Delta   []int       `json:"delta"`
	Hotel   interface{} `json:"hotel"`
	Juliett int         `json:"juliett"`
}

type govcStruct20 struct {
	Pad, Charlie                           string
	Bravo, India, Juliett                  int
	Delta                                  []int
	Hotel                                  interface{}
	F1, F2, F3, F4, F5, F6, F7, F8, F9, Fa int
	Fb, Fc, Fd                             int
}

// govcTokenKind classifies the byte position of a cut (coarse lexer over valid-ish JSON).
func govcTokenKind(doc []byte, cut int) string {
	inStr := false
	kind := "structural"
	for i := 0; i < len(doc) && i <= cut; i++ {
		c := doc[i]
		if inStr {
			kind = "string"
			if c == '\\' {
				if i+1 <= cut {
					kind = "string-escape"
				}
				i++
				continue
			}
			if c == '"' {
				inStr = false
			}
			continue
		}
		switch {
		case c == '"':
			inStr = true
			kind = "string"
		case c == ' ' || c == '\n' || c == '\t' || c == '\r':
			kind = "whitespace"
		case c == '-' || (c >= '0' && c <= '9') || c == '.' || c == 'e' || c == 'E' || c == '+':
			kind = "number"
		case c >= 'a' && c <= 'z':
			kind = "literal"
		default:
			kind = "structural"
		}
	}
	return kind
}

func govcShort(v interface{}) string {
	s := fmt.Sprintf("%+v", v)
	for {
		i := strings.Index(s, "xxxxxxxx")
		if i < 0 {
			break
		}
		j := i
		for j < len(s) && s[j] == 'x' {
			j++
		}
		s = s[:i] + fmt.Sprintf("x*%d", j-i) + s[j:]
	}
	return s
}

func TestGovcBounded(t *testing.T) {
	thorough := os.Getenv("GOVC_TIER") == "thorough"
	docs := []string{
		`null`, `true`, `false`, `nulx`, `trux`, `falsx`, `nxll`, `fxlse`,
		`0`, `-12`, `3.25`, `1e3`, `-0.5E-2`, `12345678901234567890`, `-`, `1.`, `01`,
		`""`, `"abc"`, `"a\nb"`, `"Aé"`, `"😀"`, `"a\"b\\c"`, `"é😀"`, `"\u0041\u00e9"`, `"\ud83d\ude00"`, `"\ud83d"`, `"abc`, `"a\qb"`, `"\u12"`, "\"a\xffb\"",
		`[]`, `[1,2,3]`, `[ 1 , 2 ]`, `[1,2`, `[1,,2]`, `[true,false,null]`, `[[1],[2,[3]]]`, `["a","b"]`,
		`{}`, `{"a":1}`, `{"a":1,"bc":"x"}`, `{ "a" : 1 , "bc" : "x" }`, `{"d":[1,2],"e":{"k":"v"}}`, `{"f":true,"g":1.5}`,
		`{"zz":{"y":[1,{"q":null}]},"a":2}`, `{"a":1,}`, `{"a" 1}`, `{"\u0061":5}`, `{"b\u0063":"x"}`, `{"\u0062c":"\u00e9\ud83d\ude00"}`, `{"bc":"x"}`, `{"A":7,"BC":"y"}`, `{"f":nulx}`, `{"zz":nu,l],"a":1}`,
		`  {"a":1}  `, "\n[1]\n",
		// strings with escapes in members the destination ignores (directly, in an object, in an array)
		`{"zz":"a\"b","a":1}`, `{"zz":"a\\","a":1}`, `{"zz":{"k":"\"\\"},"a":1}`, `{"zz":["\\","x\""],"a":1}`,
		// numbers in members the destination ignores, with whitespace before them
		`{"zz": 12345,"a":1}`, `{"zz":   12345 ,"a":1}`, `{"zz":-1.5e3 ,"a":2}`, `{"zz":01,"a":1}`, `{"zz": 1.,"a":1}`, `[01]`, `[1.e2]`, `-.5`, `0.e1`,
	}
	// invalid bytes are replaced by U+FFFD in place, which grows the window
	docs = append(docs, `"`+string(bytes.Repeat([]byte{0xff}, 520))+`"`, `["`+string(bytes.Repeat([]byte{0xff}, 300))+`","`+string(bytes.Repeat([]byte("y"), 400))+`"]`)
	// several simple escapes before a \u escape (the window length must follow every in-place removal), invalid bytes
	// before escapes (the window grows), a long unknown key and a long string across the first window boundary
	{
		bs := string(rune(92))
		docs = append(docs, `"a`+bs+`nb`+bs+`tc`+bs+`u00e9"`, `"q`+bs+`"`+bs+bs+bs+`/`+bs+`b`+bs+`f`+bs+`n`+bs+`r`+bs+`t`+bs+`ud83d`+bs+`ude00 end"`,
			`{"a":"l1`+bs+`nl2`+bs+`nl3`+bs+`n","bc":"`+bs+`u003cp`+bs+`u003e"}`, "\"\xff\xff"+bs+"u00e9\"", "\"\xff\xff"+bs+"u00e9"+bs+"ud83d"+bs+"ude00\"", "[\"\xff\xff\xff"+bs+"u00e9\",1]",
			"\"\xff\xff"+string(bytes.Repeat([]byte("a"), 497))+bs+"ud83d"+bs+"ude00zz\"", "\""+string(bytes.Repeat([]byte{0xff}, 32))+string(bytes.Repeat([]byte("a"), 476))+bs+"u00e9zz\"",
			`{"`+string(bytes.Repeat([]byte("b"), 600))+`":1,"a":2}`, `{"a":1,"`+string(bytes.Repeat([]byte("k"), 505))+bs+`"x":{"q":[1,2]},"bc":"y"}`, `{"h":"{`+bs+`"a`+bs+`":1}"}`)
	}
	if thorough {
		docs = append(docs, `{"e":{"k1":"v1","k2":"vé2"},"d":[10,20,30],"g":-1.25e2,"bc":"long string value with spaces"}`,
			`[{"a":1},{"a":2,"bc":"\t"},{"f":false}]`, `"`+string(bytes.Repeat([]byte("x"), 600))+`"`, `[`+string(bytes.Repeat([]byte("1,"), 400))+`1]`)
	}
	dsts := []govcStreamDst{
		{"iface", func() interface{} { return new(interface{}) }},
		{"struct", func() interface{} { return new(govcStruct) }},
		{"ints", func() interface{} { return new([]int) }},
		{"map", func() interface{} { return new(map[string]interface{}) }},
		{"string", func() interface{} { return new(string) }},
		{"int", func() interface{} { return new(int64) }},
		{"float", func() interface{} { return new(float64) }},
		{"boolptr", func() interface{} { return new(*bool) }},
		{"bytes", func() interface{} { return new([]byte) }},
	}
	classes := map[string]string{}
	record := func(class, what string) {
		if _, ok := classes[class]; !ok {
			classes[class] = what
		}
	}
	n := 0
	run := func(doc []byte, cuts []int, fail int, mk func() interface{}) (interface{}, error, bool) {
		v := mk()
		var err error
		panicked := false
		func() {
			defer func() {
				if r := recover(); r != nil {
					panicked = true
					err = fmt.Errorf("panic: %v", r)
				}
			}()
			err = NewDecoder(&govcChunkReader{data: doc, cuts: cuts, fail: fail}).Decode(v)
		}()
		return reflect.ValueOf(v).Elem().Interface(), err, panicked
	}
	for _, d := range docs {
		doc := []byte(d)
		for _, dst := range dsts {
			whole, werr, wp := run(doc, nil, -1, dst.mk)
			if wp {
				record("stream-panic-"+dst.name, fmt.Sprintf("doc=%q unchunked: %v", d, werr))
				continue
			}
			// stream = buffer on single-value documents
			bv := dst.mk()
			berr := Unmarshal(doc, bv)
			if (berr == nil) != (werr == nil) {
				record("stream-vs-buffer-verdict-"+dst.name+"-"+govcTokenKind(doc, len(doc)-1), fmt.Sprintf("doc=%q stream err=%v buffer err=%v", d, werr, berr))
			} else if berr == nil && !reflect.DeepEqual(reflect.ValueOf(bv).Elem().Interface(), whole) {
				cls := "stream-vs-buffer-value-" + dst.name
				if !utf8.Valid(doc) {
					cls += "-invalid-utf8-input"
				}
				record(cls, fmt.Sprintf("doc=%q stream=%v buffer=%v", d, whole, reflect.ValueOf(bv).Elem().Interface()))
			}
			var chunkings [][]int
			step := 1
			if len(doc) > 200 {
				step = 37 // long documents: sampled cut positions plus the buffer boundaries
				for _, c := range []int{510, 511, 512, 513, 1022, 1023, 1024, 1025} {
					if c < len(doc) {
						chunkings = append(chunkings, []int{c})
					}
				}
			}
			for c := 1; c < len(doc); c += step {
				chunkings = append(chunkings, []int{c})
			}
			if len(doc) <= 14 {
				for a := 1; a < len(doc); a++ {
					for b := a + 1; b < len(doc); b++ {
						chunkings = append(chunkings, []int{a, b})
					}
				}
			}
			for size := 1; size <= 17; size++ {
				var cs []int
				for c := size; c < len(doc); c += size {
					cs = append(cs, c)
				}
				if len(cs) > 0 {
					chunkings = append(chunkings, cs)
				}
			}
			for _, cuts := range chunkings {
				n++
				got, gerr, gp := run(doc, cuts, -1, dst.mk)
				kind := govcTokenKind(doc, cuts[0])
				what := fmt.Sprintf("doc=%q cuts=%v dst=%s: chunked=(%v, err=%v) whole=(%v, err=%v)", d, cuts, dst.name, got, gerr, whole, werr)
				switch {
				case gp:
					record("chunked-panic-"+dst.name+"-cut-in-"+kind, what)
				case (gerr == nil) != (werr == nil):
					record("chunking-changes-verdict-"+dst.name+"-cut-in-"+kind, what)
				case gerr == nil && !reflect.DeepEqual(got, whole):
					record("chunking-changes-value-"+dst.name+"-cut-in-"+kind, what)
				}
			}
			// a reader failure other than EOF must never yield a successfully decoded value
			if werr == nil {
				fstep := 1
				if len(doc) > 200 {
					fstep = 53
				}
				for f := 0; f < len(doc); f += fstep {
					n++
					fv, ferr, fp := run(doc, nil, f, dst.mk)
					if fp {
						record("reader-error-panic-"+dst.name, fmt.Sprintf("doc=%q failure at %d: %v", d, f, ferr))
					} else if ferr == nil {
						// legitimate only if the value was already complete when the reader failed
						if !reflect.DeepEqual(fv, whole) {
							record("reader-error-swallowed-"+dst.name+"-in-"+govcTokenKind(doc, f), fmt.Sprintf("doc=%q reader fails at byte %d, Decode returns nil and %v", d, f, fv))
						}
					} else if !errors.Is(ferr, errGovcInjected) && ferr.Error() != errGovcInjected.Error() {
						record("reader-error-replaced-"+dst.name, fmt.Sprintf("doc=%q reader fails at byte %d, Decode returns %q", d, f, ferr))
					}
				}
			}
		}
	}
	// ---- window boundaries: the stream window is full at fixed absolute offsets (511, 1023, ...)
	// whatever the reader does, and a refill there reallocates the window. A padded first member
	// slides every byte of the members after it across those offsets, for the three struct key
	// scanners (8-bit bitmap, 16-bit bitmap, map), a map and interface{}.
	bs := string(rune(92))
	tails := []string{
		`"juliett":7,"bravo":2`,
		`"charlie":"v` + bs + `n` + bs + `"w","juliett":-12`,
		`"JULIETT":7,"Bravo":2`,
		`"zz` + bs + `"x":1,"bravo":2`,
		`"unknown` + bs + bs + `":{"k":"` + bs + `"","l":[1,"]"]},"india":3`,
		`"j` + bs + `u0075liett":7,"bravo":2`,
		`"delta":[1,-22,333],"hotel":{"k":[true,false,null,1.5e3,"s"]},"juliett":1`,
		`"charlie":"` + string(rune(0xe9)) + string(rune(0x1f600)) + `","hotel":"` + bs + `ud83d` + bs + `ude00","juliett":1`,
		`"hotel":null,"india": 12 ,"juliett" : 3 `,
	}
	bdsts := []govcStreamDst{
		{"struct10", func() interface{} { return new(govcStruct10) }},
		{"struct6", func() interface{} { return new(govcStruct6) }},
		{"struct20", func() interface{} { return new(govcStruct20) }},
		{"iface", func() interface{} { return new(interface{}) }},
		{"map", func() interface{} { return new(map[string]interface{}) }},
	}
	bounds := []int{511}
	if thorough {
		bounds = append(bounds, 1023)
	}
	nb := 0
	for ti, tail := range tails {
		for _, bound := range bounds {
			// the member after the padding starts at offset len(`{"pad":"`)+pad+len(`",`) = pad+10
			for pad := bound - 10 - len(tail) - 1; pad <= bound-10+1; pad++ {
				if pad < 0 {
					continue
				}
				doc := []byte(`{"pad":"` + string(bytes.Repeat([]byte("x"), pad)) + `",` + tail + `}`)
				for _, dst := range bdsts {
					bv := dst.mk()
					berr := Unmarshal(doc, bv)
					want := reflect.ValueOf(bv).Elem().Interface()
					for _, size := range []int{0, 1, 7, 512} {
						nb++
						var cuts []int
						for c := size; size > 0 && c < len(doc); c += size {
							cuts = append(cuts, c)
						}
						got, gerr, gp := run(doc, cuts, -1, dst.mk)
						what := fmt.Sprintf("tail %d=%s pad=%d (member starts at %d) pieces=%d dst=%s: stream=(%s, err=%v) buffer=(%s, err=%v)", ti, tail, pad, pad+10, size, dst.name, govcShort(got), gerr, govcShort(want), berr)
						cls := fmt.Sprintf("-%s-tail%d-at-window-boundary", dst.name, ti)
						switch {
						case gp:
							record("stream-panic"+cls, what)
						case (gerr == nil) != (berr == nil):
							record("stream-vs-buffer-verdict"+cls, what)
						case gerr == nil && !reflect.DeepEqual(got, want):
							record("stream-vs-buffer-value"+cls, what)
						}
					}
				}
			}
		}
	}
	var ks []string
	for k := range classes {
		ks = append(ks, k)
	}
	sort.Strings(ks)
	for _, k := range ks {
		fmt.Printf("BOUNDED-CLASS %s example: %s\n", k, classes[k])
	}
	fmt.Printf("BOUNDED-OK stream decoding against one-piece and buffer decoding: %d documents x %d destinations, %d chunked or failing runs; %d member tails slid across window offsets %v for %d destinations (%d runs); %d disagreement classes\n", len(docs), len(dsts), n, len(tails), bounds, len(bdsts), nb, len(ks))
}
