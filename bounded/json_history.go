package json

// Bounded stand-in (labelled bounded, never counted as proved) for the parts of C11
// outside the initialisation contracts: a fixed set of probe calls is run first
// (baseline), then again after every disturbance - calls that fail half-way
// (marshaler errors, recovered panics, cycles, syntax and type errors), calls with
// other options (indent, Colorize, UnorderedMap, context with and without a field
// query, first-win, DisallowUnknownFields), large inputs and outputs, and reuse of a
// Path, an Encoder and a Decoder after an error - and every probe must give the
// baseline result again.

import (
	"bytes"
	"context"
	stdjson "encoding/json"
	"errors"
	"fmt"
	"sort"
	"strings"
	"testing"
)

type govcHistFail struct{ Deep int }

func (f govcHistFail) MarshalJSON() ([]byte, error) {
	if f.Deep < 0 {
		panic("marshaler panic")
	}
	return nil, errors.New("marshaler failure")
}

type govcHistWriter struct {
	n      int
	closed bool
}

func (w *govcHistWriter) Write(p []byte) (int, error) { w.n += len(p); return len(p), nil }
func (w *govcHistWriter) Close() error                { w.closed = true; return nil }

type govcHistCtx struct{ V int }

func (c govcHistCtx) MarshalJSON(ctx context.Context) ([]byte, error) {
	if ctx == nil {
		return []byte(`"nil-context"`), nil
	}
	if v := ctx.Value(govcHistKey{}); v != nil {
		return []byte(fmt.Sprintf(`"ctx-%v"`, v)), nil
	}
	return []byte(`"background"`), nil
}

type govcHistKey struct{}

type govcHistNode struct {
	V    int           `json:"v"`
	Next *govcHistNode `json:"next,omitempty"`
}

type govcHistRec struct {
	A int               `json:"a"`
	B string            `json:"b,omitempty"`
	C []int             `json:"c"`
	D map[string]int    `json:"d"`
	E *govcHistRec      `json:"e,omitempty"`
	F interface{}       `json:"f"`
	G govcHistCtx       `json:"g"`
	H map[string]string `json:"h,omitempty"`
}

func TestGovcBounded(t *testing.T) {
	classes := map[string]string{}
	record := func(class, what string) {
		if _, ok := classes[class]; !ok {
			classes[class] = what
		}
	}
	val := govcHistRec{A: 1, B: "b<>", C: []int{1, 2}, D: map[string]int{"z": 1, "a": 2, "m": 3}, E: &govcHistRec{A: 2, F: 1.5}, F: []interface{}{"x", 2}, H: map[string]string{"k": "v"}}
	deep := &govcHistNode{}
	cur := deep
	for i := 0; i < 1200; i++ {
		cur.Next = &govcHistNode{V: i}
		cur = cur.Next
	}
	path, perr := CreatePath("$.a[1].b")
	path2, _ := CreatePath("$[*].q")
	probes := []struct {
		name string
		run  func() string
	}{
		{"Marshal", func() string { b, err := Marshal(val); return fmt.Sprintf("%s|%v", b, err) }},
		{"MarshalIndent", func() string { b, err := MarshalIndent(val, ">", "  "); return fmt.Sprintf("%s|%v", b, err) }},
		{"MarshalNoEscape", func() string { b, err := MarshalNoEscape(val); return fmt.Sprintf("%s|%v", b, err) }},
		{"Marshal-deep-list", func() string { b, err := Marshal(deep); return fmt.Sprintf("%d|%v", len(b), err) }},
		{"Encoder", func() string {
			var buf bytes.Buffer
			err := NewEncoder(&buf).Encode(val)
			return fmt.Sprintf("%s|%v", buf.Bytes(), err)
		}},
		{"Unmarshal-struct", func() string {
			var v govcHistRec
			err := Unmarshal([]byte(`{"a":5,"b":"x","c":[1],"d":{"q":1},"e":{"a":7},"f":[1,"s"],"h":{"k":"v"},"a":6}`), &v)
			e := v.E
			v.E = nil // pointers print as addresses
			return fmt.Sprintf("%+v|%+v|%v", v, e, err)
		}},
		{"Unmarshal-iface", func() string {
			var v interface{}
			err := Unmarshal([]byte(`{"a":[1,2,{"b":null}],"c":"s"}`), &v)
			return fmt.Sprintf("%v|%v", v, err)
		}},
		{"Unmarshal-slice-reuse", func() string {
			var v []map[string][]int
			err := Unmarshal([]byte(`[{"a":[1,2,3]},{"b":[4]}]`), &v)
			return fmt.Sprintf("%v|%v", v, err)
		}},
		{"Decoder", func() string {
			dec := NewDecoder(strings.NewReader(`{"a":1} [2] "three"`))
			var out []string
			for i := 0; i < 3; i++ {
				var v interface{}
				err := dec.Decode(&v)
				out = append(out, fmt.Sprintf("%v|%v", v, err))
			}
			return strings.Join(out, ";")
		}},
		{"Path-Extract", func() string {
			if perr != nil {
				return "createpath:" + perr.Error()
			}
			r, err := path.Extract([]byte(`{"a":[{"b":1},{"b":[2,3]}]}`))
			return fmt.Sprintf("%q|%v", r, err)
		}},
		{"Path2-Extract", func() string {
			r, err := path2.Extract([]byte(`[{"q":1},{"q":"s"},{"r":0}]`))
			return fmt.Sprintf("%q|%v", r, err)
		}},
		{"Valid", func() string {
			return fmt.Sprint(Valid([]byte(`{"a":[1,2,{"b":null}]}`)), Valid([]byte(`{"a":[1,2,{"b":nul}]}`)))
		}},
		{"Compact", func() string {
			var buf bytes.Buffer
			err := Compact(&buf, []byte(` { "a" : [ 1 , 2 ] } `))
			return fmt.Sprintf("%s|%v", buf.Bytes(), err)
		}},
	}
	base := make([]string, len(probes))
	for i, p := range probes {
		base[i] = p.run()
	}
	quiet := func(f func()) {
		defer func() { _ = recover() }()
		f()
	}
	cyc := &govcHistNode{}
	cyc.Next = cyc
	deepCyc := &govcHistNode{}
	c2 := deepCyc
	for i := 0; i < 1500; i++ {
		c2.Next = &govcHistNode{V: i}
		c2 = c2.Next
	}
	c2.Next = deepCyc
	ctxQ := SetFieldQueryToContext(context.WithValue(context.Background(), govcHistKey{}, "A"), mustQuery())
	disturbances := []struct {
		name string
		run  func()
	}{
		{"marshaler-error", func() { _, _ = Marshal(map[string]interface{}{"ok": val, "bad": govcHistFail{}}) }},
		{"marshaler-error-indent", func() { _, _ = MarshalIndent([]interface{}{val, govcHistFail{}}, "", " ") }},
		{"marshaler-panic", func() { _, _ = Marshal([]interface{}{val, val, govcHistFail{Deep: -1}}) }},
		{"cycle", func() { _, _ = Marshal(cyc); _, _ = Marshal(deepCyc) }},
		{"colorize", func() { _, _ = MarshalWithOption(val, Colorize(DefaultColorScheme)) }},
		{"colorize-indent", func() { _, _ = MarshalIndentWithOption(val, "", "\t", Colorize(DefaultColorScheme)) }},
		{"unordered-map", func() { _, _ = MarshalWithOption(val, UnorderedMap()) }},
		{"context", func() { _, _ = MarshalContext(context.WithValue(context.Background(), govcHistKey{}, "B"), val) }},
		{"context-fieldquery", func() { _, _ = MarshalContext(ctxQ, val) }},
		{"debug", func() { _, _ = MarshalWithOption(val, Debug(), DebugWith(&bytes.Buffer{})) }},
		{"big-output", func() { _, _ = Marshal(strings.Repeat("x", 1<<16)); _, _ = MarshalIndent(make([]int, 5000), "", " ") }},
		{"syntax-error", func() {
			var v govcHistRec
			_ = Unmarshal([]byte(`{"a":5,"c":[1,2,`), &v)
			_ = Unmarshal([]byte(`{"a":5,"d":{"q":x}}`), &v)
		}},
		{"type-error", func() {
			var v govcHistRec
			_ = Unmarshal([]byte(`{"a":"str","c":{"x":1}}`), &v)
			var s []map[string][]int
			_ = Unmarshal([]byte(`[{"a":[1,2,"x"]}]`), &s)
		}},
		{"firstwin-and-unknown", func() {
			var v govcHistRec
			_ = UnmarshalWithOption([]byte(`{"a":1,"a":2,"zz":3}`), &v, DecodeFieldPriorityFirstWin())
			dec := NewDecoder(strings.NewReader(`{"zz":1}`))
			dec.DisallowUnknownFields()
			_ = dec.Decode(&v)
		}},
		{"unmarshal-context", func() {
			var v govcHistRec
			_ = UnmarshalContext(context.WithValue(context.Background(), govcHistKey{}, "C"), []byte(`{"a":1}`), &v)
		}},
		{"big-input", func() {
			var v interface{}
			_ = Unmarshal([]byte(`["`+strings.Repeat("q", 1<<16)+`",`+strings.Repeat("[", 500)+strings.Repeat("]", 500)+`]`), &v)
			var s []map[string][]int
			_ = Unmarshal([]byte(`[`+strings.Repeat(`{"a":[1,2,3,4,5,6,7,8,9]},`, 200)+`{}]`), &s)
		}},
		{"path-error", func() {
			_, _ = path.Extract([]byte(`{"a":[{"b":1},{"b":x}]}`))
			_, _ = path.Extract([]byte(`{"a":[{"b":1}`))
			_, _ = path2.Extract([]byte(`[{"q":1},{"q":`))
			_, _ = path2.Extract([]byte(`[[1,2],{"q":}]`))
			var v int
			_ = path.Unmarshal([]byte(`{"a":[0,{"b":"notint"}]}`), &v)
		}},
		{"encoder-decoder-reuse", func() {
			var buf bytes.Buffer
			enc := NewEncoder(&buf)
			_ = enc.Encode(govcHistFail{})
			enc.SetIndent(">>", "\t")
			_ = enc.Encode(val)
			dec := NewDecoder(strings.NewReader(`{"a":x} {"a":1}`))
			var v govcHistRec
			_ = dec.Decode(&v)
			_ = dec.Decode(&v)
		}},
	}
	n := 0
	for _, d := range disturbances {
		quiet(d.run)
		for i, p := range probes {
			n++
			var got string
			quiet(func() { got = "PANIC"; got = p.run() })
			if got != base[i] {
				record("probe-"+p.name+"-changed-after-"+d.name, fmt.Sprintf("baseline %.200q now %.200q", base[i], got))
			}
		}
	}
	// writers given to one call are not used by a later one
	{
		w := &govcHistWriter{}
		_, _ = MarshalWithOption(val, DebugDOT(w)) // no Debug(): the graph is not written by this call
		wrote := w.n
		var dbg bytes.Buffer
		_, _ = MarshalWithOption(map[string]int{"a": 1}, Debug(), DebugWith(&dbg))
		_, _ = MarshalWithOption(map[string]int{"b": 2}, Debug())
		n++
		if w.n != wrote || w.closed {
			record("debug-writer-of-an-earlier-call-used-by-a-later-call", fmt.Sprintf("%d bytes written to and closed=%v on a writer given only to an earlier call", w.n-wrote, w.closed))
		}
	}
	// a type whose very first encode carries a field query: later plain encodes must not be narrowed by it
	{
		type govcHistCold struct {
			A int    `json:"a"`
			B string `json:"b"`
			C []int  `json:"c"`
		}
		cold := govcHistCold{A: 1, B: "b", C: []int{1}}
		_, _ = MarshalContext(ctxQ, cold)
		got, err := Marshal(cold)
		want, _ := stdjson.Marshal(cold)
		n++
		if err != nil || string(got) != string(want) {
			record("plain-encode-narrowed-by-an-earlier-field-query", fmt.Sprintf("got %s (%v) want %s", got, err, want))
		}
		q2, _ := BuildFieldQuery("b")
		got2, _ := MarshalContext(SetFieldQueryToContext(context.Background(), q2), cold)
		n++
		if string(got2) != `{"b":"b"}` {
			record("field-query-result-depends-on-an-earlier-query", fmt.Sprintf("got %s want {\"b\":\"b\"}", got2))
		}
	}
	var ks []string
	for k := range classes {
		ks = append(ks, k)
	}
	sort.Strings(ks)
	for _, k := range ks {
		fmt.Printf("BOUNDED-CLASS %s example: %s\n", k, classes[k])
	}
	fmt.Printf("BOUNDED-OK history independence: %d probes re-run after each of %d disturbances (%d comparisons), %d disagreement classes\n", len(probes), len(disturbances), n, len(ks))
}

func mustQuery() *FieldQuery {
	q, err := BuildFieldQuery("a", "c")
	if err != nil {
		panic(err)
	}
	return q
}
