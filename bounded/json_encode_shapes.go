package json

// Bounded stand-in (labelled bounded, never counted as proved) for the part of
// C03 that no contract states: the trailing-comma / closer discipline of the
// container opcodes. Struct types are built with reflect.StructOf so that every
// field kind appears in first, middle and last position, plain / omitempty /
// string-tagged, zero and non-zero, nil and non-nil, directly, behind a
// pointer, inside a slice and inside a map, and is encoded through every entry
// point the property names. The oracle is well-formedness only
// (encoding/json.Valid on the produced bytes): agreement with encoding/json's
// bytes is C01 and not checked here.

import (
	"bytes"
	stdjson "encoding/json"
	"fmt"
	"math"
	"os"
	"reflect"
	"sort"
	"testing"
)

type govcMarshV struct{ N int }

func (m govcMarshV) MarshalJSON() ([]byte, error) { return []byte(fmt.Sprintf(`{"n":%d}`, m.N)), nil }

type govcTextV struct{ N int }

func (m govcTextV) MarshalText() ([]byte, error) { return []byte(fmt.Sprintf("t%d", m.N)), nil }

type govcInner struct {
	X int `json:"x,omitempty"`
}

type govcKind struct {
	name    string
	typ     reflect.Type
	vals    []interface{} // values to try (nil entry = zero value)
	strable bool
}

func govcPtrTo(v interface{}) interface{} {
	p := reflect.New(reflect.TypeOf(v))
	p.Elem().Set(reflect.ValueOf(v))
	return p.Interface()
}

func govcKinds() []govcKind {
	ks := []govcKind{
		{"int", reflect.TypeOf(int(0)), []interface{}{nil, int(-7)}, true},
		{"int8", reflect.TypeOf(int8(0)), []interface{}{nil, int8(-8)}, true},
		{"uint16", reflect.TypeOf(uint16(0)), []interface{}{nil, uint16(9)}, true},
		{"float32", reflect.TypeOf(float32(0)), []interface{}{nil, float32(1.5), float32(math.Inf(1)), float32(math.Inf(-1)), float32(math.NaN())}, true},
		{"float64", reflect.TypeOf(float64(0)), []interface{}{nil, float64(2.5), math.Inf(1), math.Inf(-1), math.NaN()}, true},
		{"bool", reflect.TypeOf(false), []interface{}{nil, true}, true},
		{"string", reflect.TypeOf(""), []interface{}{nil, "s<\"x"}, true},
		{"bytes", reflect.TypeOf([]byte(nil)), []interface{}{nil, []byte{}, []byte("ab")}, false},
		{"number", reflect.TypeOf(stdjson.Number("")), []interface{}{nil, stdjson.Number("12")}, false},
		{"slice", reflect.TypeOf([]int(nil)), []interface{}{nil, []int{}, []int{1, 2}}, false},
		{"array", reflect.TypeOf([2]int{}), []interface{}{nil, [2]int{1, 2}}, false},
		{"map", reflect.TypeOf(map[string]int(nil)), []interface{}{nil, map[string]int{}, map[string]int{"k": 1}}, false},
		{"struct", reflect.TypeOf(govcInner{}), []interface{}{nil, govcInner{X: 3}}, false},
		{"iface", reflect.TypeOf((*interface{})(nil)).Elem(), []interface{}{nil, 5, "v", []interface{}{1}, map[string]interface{}{}}, false},
		{"marshaler", reflect.TypeOf(govcMarshV{}), []interface{}{nil, govcMarshV{4}}, false},
		{"textmarshaler", reflect.TypeOf(govcTextV{}), []interface{}{nil, govcTextV{4}}, false},
	}
	// pointer variants of everything except the interface kind
	n := len(ks)
	for i := 0; i < n; i++ {
		k := ks[i]
		if k.name == "iface" {
			continue
		}
		pk := govcKind{name: "*" + k.name, typ: reflect.PtrTo(k.typ), strable: k.strable}
		pk.vals = append(pk.vals, nil)
		for _, v := range k.vals {
			if v == nil {
				pk.vals = append(pk.vals, reflect.New(k.typ).Interface())
			} else {
				pk.vals = append(pk.vals, govcPtrTo(v))
			}
		}
		ks = append(ks, pk)
	}
	return ks
}

func TestGovcBounded(t *testing.T) {
	thorough := os.Getenv("GOVC_TIER") == "thorough"
	classes := map[string]string{}
	record := func(class, what string) {
		if _, ok := classes[class]; !ok {
			classes[class] = what
		}
	}
	n := 0
	intT := reflect.TypeOf(0)
	tags := []string{"", ",omitempty", ",string", ",omitempty,string"}
	// neighbours: P is always present, O is an omitted (zero, omitempty) int
	layouts := [][]string{{"F"}, {"P", "F"}, {"F", "P"}, {"O", "F"}, {"F", "O"}, {"P", "F", "P"}, {"O", "F", "O"}, {"P", "O", "F"}}
	if thorough {
		layouts = append(layouts, []string{"F", "F"}, []string{"P", "F", "O"}, []string{"O", "P", "F"}, []string{"F", "P", "O"})
	}
	for _, k := range govcKinds() {
		for _, tag := range tags {
			if (tag == ",string" || tag == ",omitempty,string") && !k.strable {
				continue
			}
			for _, lay := range layouts {
				var fs []reflect.StructField
				var fidx []int
				for i, l := range lay {
					switch l {
					case "F":
						fs = append(fs, reflect.StructField{Name: fmt.Sprintf("F%d", i), Type: k.typ, Tag: reflect.StructTag(fmt.Sprintf(`json:"f%d%s"`, i, tag))})
						fidx = append(fidx, i)
					case "P":
						fs = append(fs, reflect.StructField{Name: fmt.Sprintf("P%d", i), Type: intT, Tag: reflect.StructTag(fmt.Sprintf(`json:"p%d"`, i))})
					case "O":
						fs = append(fs, reflect.StructField{Name: fmt.Sprintf("O%d", i), Type: intT, Tag: reflect.StructTag(fmt.Sprintf(`json:"o%d,omitempty"`, i))})
					}
				}
				typ := reflect.StructOf(fs)
				for _, val := range k.vals {
					sv := reflect.New(typ).Elem()
					for i, l := range lay {
						if l == "P" {
							sv.Field(i).SetInt(1)
						}
					}
					for _, i := range fidx {
						if val != nil {
							sv.Field(i).Set(reflect.ValueOf(val))
						}
					}
					base := sv.Interface()
					wrapped := []interface{}{base, sv.Addr().Interface(), []interface{}{base, base}, map[string]interface{}{"m": base}}
					sl := reflect.MakeSlice(reflect.SliceOf(typ), 2, 2)
					sl.Index(0).Set(sv)
					sl.Index(1).Set(sv)
					wrapped = append(wrapped, sl.Interface())
					for wi, w := range wrapped {
						what := fmt.Sprintf("kind=%s tag=%q layout=%v value=%v wrap=%d", k.name, tag, lay, val, wi)
						outs := map[string][]byte{}
						errs := map[string]error{}
						outs["Marshal"], errs["Marshal"] = Marshal(w)
						outs["MarshalIndent"], errs["MarshalIndent"] = MarshalIndent(w, "", " ")
						outs["MarshalNoEscape"], errs["MarshalNoEscape"] = MarshalNoEscape(w)
						outs["MarshalWithOption(UnorderedMap)"], errs["MarshalWithOption(UnorderedMap)"] = MarshalWithOption(w, UnorderedMap())
						var buf bytes.Buffer
						enc := NewEncoder(&buf)
						errs["Encoder.Encode"] = enc.Encode(w)
						outs["Encoder.Encode"] = buf.Bytes()
						for ep, out := range outs {
							n++
							if errs[ep] != nil {
								if _, e := stdjson.Marshal(w); e == nil {
									record(ep+"-error-on-encodable-value-"+k.name, what+" err="+errs[ep].Error())
								}
								continue
							}
							if !stdjson.Valid(out) {
								record(ep+"-invalid-output-"+k.name, fmt.Sprintf("%s out=%q", what, out))
							}
						}
					}
				}
			}
		}
	}
	// map key types: supported ones give a valid object, the others an error, never an unquoted or null member name
	one, str := 1, "k"
	pone := &one
	maps := []interface{}{
		map[string]int{"": 1, "a\"b": 2}, map[int8]int{-128: 1, 127: 2}, map[uint64]int{0: 1, math.MaxUint64: 2}, map[uintptr]int{1 << 40: 1},
		map[*int]string{&one: "a"}, map[*int]string{nil: "a"}, map[*int]string{}, map[*string]string{&str: "a", nil: "b"}, map[**int]int{&pone: 1},
		map[bool]int{true: 1}, map[float64]int{1.5: 1}, map[float32]int{2: 1}, map[[2]int]int{{1, 2}: 1}, map[govcInner]int{{X: 1}: 1},
		map[govcTextV]int{{4}: 1}, map[*govcTextV]int{{4}: 1, nil: 2}, map[interface{}]int{1: 1}, map[interface{}]int{"s": 1}, map[interface{}]int{},
		map[stdjson.Number]int{"12": 1}, map[complex64]int{1: 1}, map[chan int]int{nil: 1},
	}
	for _, m := range maps {
		wrapped := []interface{}{m, govcPtrTo(m), []interface{}{m}, map[string]interface{}{"m": m}, struct {
			A int         `json:"a"`
			M interface{} `json:"m,omitempty"`
			Z int         `json:"z"`
		}{1, m, 2}}
		for wi, w := range wrapped {
			what := fmt.Sprintf("map type %T value %v wrap=%d", m, m, wi)
			outs := map[string][]byte{}
			errs := map[string]error{}
			outs["Marshal"], errs["Marshal"] = Marshal(w)
			outs["MarshalIndent"], errs["MarshalIndent"] = MarshalIndent(w, "", " ")
			outs["MarshalNoEscape"], errs["MarshalNoEscape"] = MarshalNoEscape(w)
			outs["MarshalWithOption(UnorderedMap)"], errs["MarshalWithOption(UnorderedMap)"] = MarshalWithOption(w, UnorderedMap())
			var buf bytes.Buffer
			errs["Encoder.Encode"] = NewEncoder(&buf).Encode(w)
			outs["Encoder.Encode"] = buf.Bytes()
			for ep, out := range outs {
				n++
				if errs[ep] != nil {
					if _, e := stdjson.Marshal(w); e == nil {
						record(ep+"-error-on-encodable-map-key-type", what+" err="+errs[ep].Error())
					}
					continue
				}
				if !stdjson.Valid(out) {
					record(ep+"-invalid-output-map-key-type", fmt.Sprintf("%s out=%q", what, out))
				}
			}
		}
	}
	var ks []string
	for k := range classes {
		ks = append(ks, k)
	}
	sort.Strings(ks)
	for _, k := range ks {
		fmt.Printf("BOUNDED-CLASS %s example: %s\n", k, classes[k])
	}
	fmt.Printf("BOUNDED-OK well-formedness of encoder output over struct shapes: %d encodings (31 field kinds x tags x %d layouts x values incl. non-finite floats x 5 wrappings x 5 entry points; 22 maps over supported and unsupported key types x 5 wrappings x 5 entry points), %d disagreement classes\n", n, len(layouts), len(ks))
}
