package encoder

// Bounded stand-in (labelled bounded, never counted as proved) for the exact
// output of AppendInt / AppendUint: exhaustive for 8- and 16-bit operands,
// boundary bands and seeded random values for 32- and 64-bit operands, against
// strconv. The unbounded statement is the [unverified] clause in the contract.

import (
	"fmt"
	"math/rand"
	"os"
	"strconv"
	"testing"
	"unsafe"
)

func TestGovcBounded(t *testing.T) {
	seed, _ := strconv.ParseInt(os.Getenv("VERIF_SEED"), 10, 64)
	band := uint64(1) << 12
	nrand := 200000
	if os.Getenv("GOVC_TIER") == "thorough" {
		band = 1 << 16
		nrand = 3000000
	}
	rng := rand.New(rand.NewSource(seed))
	n := 0
	prefix := []byte("xy")
	check := func(bits uint8, u uint64) bool {
		var store [8]byte
		p := uintptr(unsafe.Pointer(&store))
		switch bits {
		case 8:
			*(*uint8)(unsafe.Pointer(&store)) = uint8(u)
			u = uint64(uint8(u))
		case 16:
			*(*uint16)(unsafe.Pointer(&store)) = uint16(u)
			u = uint64(uint16(u))
		case 32:
			*(*uint32)(unsafe.Pointer(&store)) = uint32(u)
			u = uint64(uint32(u))
		default:
			*(*uint64)(unsafe.Pointer(&store)) = u
		}
		code := &Opcode{NumBitSize: bits}
		gotU := string(AppendUint(nil, append([]byte{}, prefix...), p, code))
		wantU := "xy" + strconv.FormatUint(u, 10)
		var s int64
		switch bits {
		case 8:
			s = int64(int8(u))
		case 16:
			s = int64(int16(u))
		case 32:
			s = int64(int32(u))
		default:
			s = int64(u)
		}
		gotI := string(AppendInt(nil, append([]byte{}, prefix...), p, code))
		wantI := "xy" + strconv.FormatInt(s, 10)
		n++
		if gotU != wantU {
			fmt.Printf("BOUNDED-FAIL AppendUint bits=%d value=%d got=%q want=%q\n", bits, u, gotU, wantU)
			return false
		}
		if gotI != wantI {
			fmt.Printf("BOUNDED-FAIL AppendInt bits=%d value=%d got=%q want=%q\n", bits, s, gotI, wantI)
			return false
		}
		return true
	}
	for v := uint64(0); v < 1<<16; v++ {
		if v < 256 && !check(8, v) {
			t.Fail()
			return
		}
		if !check(16, v) {
			t.Fail()
			return
		}
	}
	var centers []uint64
	for i := uint(0); i < 64; i++ {
		centers = append(centers, 1<<i)
	}
	for p := uint64(1); ; p *= 10 {
		centers = append(centers, p)
		if p > (1<<63)/5 {
			break
		}
	}
	centers = append(centers, 0, ^uint64(0))
	for _, c := range centers {
		for d := uint64(0); d <= band; d++ {
			for _, v := range []uint64{c + d, c - d} {
				if !check(64, v) || !check(32, v) {
					t.Fail()
					return
				}
			}
		}
	}
	for i := 0; i < nrand; i++ {
		v := rng.Uint64() >> uint(rng.Intn(64))
		if !check(64, v) || !check(32, v) {
			t.Fail()
			return
		}
	}
	fmt.Printf("BOUNDED-OK cases=%d bound=\"8/16-bit exhaustive; 32/64-bit within %d of every power of 2 and 10 plus %d seeded random values (seed %d)\"\n", n, band, nrand, seed)
}
