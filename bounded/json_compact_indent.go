package json

// Bounded stand-in (labelled bounded, never counted as proved) for the part of
// C18 that no function contract states: Compact and Indent accept exactly the
// texts encoding/json accepts and append the same bytes. Exhaustive over all
// byte strings up to a length bound over a structural alphabet; destination
// buffers empty and pre-filled. Disagreements are grouped into classes; the
// harness reports each class (known ones are listed in known_findings.json).

import (
	"bytes"
	stdjson "encoding/json"
	"fmt"
	"os"
	"reflect"
	"sort"
	"strings"
	"testing"
)

func TestGovcBounded(t *testing.T) {
	alphabet := []byte(`{}[]":,1a `)
	maxLen := 7
	if os.Getenv("GOVC_TIER") == "thorough" {
		maxLen = 8
	}
	classes := map[string]string{}
	n := 0
	buf := make([]byte, 0, maxLen)
	pre := []byte("XY")
	var check func()
	record := func(class string, doc []byte) {
		if _, ok := classes[class]; !ok {
			classes[class] = string(doc)
		}
	}
	check = func() {
		doc := buf
		n++
		var a, b bytes.Buffer
		a.Write(pre)
		b.Write(pre)
		e1 := Compact(&a, doc)
		e2 := stdjson.Compact(&b, doc)
		switch {
		case (e1 == nil) != (e2 == nil):
			if e1 == nil {
				record("compact-accepts-invalid", doc)
			} else {
				record("compact-rejects-valid", doc)
			}
		case e1 == nil && !bytes.Equal(a.Bytes(), b.Bytes()):
			record("compact-output-differs", doc)
		case e1 != nil && !bytes.Equal(a.Bytes(), pre):
			record("compact-error-changes-buffer", doc)
		}
		var c, d bytes.Buffer
		c.Write(pre)
		d.Write(pre)
		e3 := Indent(&c, doc, ">", " ")
		e4 := stdjson.Indent(&d, doc, ">", " ")
		switch {
		case (e3 == nil) != (e4 == nil):
			if e3 == nil {
				record("indent-accepts-invalid", doc)
			} else {
				record("indent-rejects-valid", doc)
			}
		case e3 == nil && !bytes.Equal(c.Bytes(), d.Bytes()):
			if bytes.Equal(bytes.TrimRight(c.Bytes(), " \t\r\n"), bytes.TrimRight(d.Bytes(), " \t\r\n")) {
				record("indent-trailing-whitespace-dropped", doc)
			} else {
				record("indent-output-differs", doc)
			}
		case e3 != nil && !bytes.Equal(c.Bytes(), pre):
			record("indent-error-changes-buffer", doc)
		}
		if v1, v2 := Valid(doc), stdjson.Valid(doc); v1 != v2 {
			if v1 {
				record("valid-accepts-invalid", doc)
			} else {
				record("valid-rejects-valid", doc)
			}
		}
		// HTMLEscape: for a valid text an equivalent text without raw < > & U+2028 U+2029 is appended;
		// for an invalid one the buffer stays as it was (the property does not ask for encoding/json's bytes)
		var h1 bytes.Buffer
		h1.Write(pre)
		HTMLEscape(&h1, doc)
		if !stdjson.Valid(doc) {
			if !bytes.Equal(h1.Bytes(), pre) {
				record("htmlescape-invalid-text-changes-buffer", doc)
			}
		} else {
			out := h1.Bytes()
			if !bytes.HasPrefix(out, pre) {
				record("htmlescape-overwrites-buffer", doc)
			} else {
				out = out[len(pre):]
				if bytes.ContainsAny(out, "<>&") || bytes.Contains(out, []byte("\xe2\x80\xa8")) || bytes.Contains(out, []byte("\xe2\x80\xa9")) {
					record("htmlescape-leaves-raw-html-character", doc)
				}
				var v1, v2 interface{}
				d1 := stdjson.NewDecoder(bytes.NewReader(out))
				d1.UseNumber()
				d2 := stdjson.NewDecoder(bytes.NewReader(doc))
				d2.UseNumber()
				if e1, e2 := d1.Decode(&v1), d2.Decode(&v2); e1 != nil || e2 != nil || !reflect.DeepEqual(v1, v2) {
					record("htmlescape-output-not-equivalent", doc)
				}
			}
		}
	}
	var rec func(depth int)
	rec = func(depth int) {
		if len(buf) > 0 {
			check()
		}
		if depth == maxLen {
			return
		}
		for _, ch := range alphabet {
			buf = append(buf, ch)
			rec(depth + 1)
			buf = buf[:len(buf)-1]
		}
	}
	rec(0)
	// outside the alphabet: numbers beyond float64, NUL bytes, control characters, escapes, HTML characters, U+2028/9
	bs := string(rune(92))
	for _, d := range []string{"1e400", "[1E999]", "-1e-400", "[-1e400,1]", `{"a":1e999}`, "0e0", "-0.0e+0", "1\x00", "1\x00x", "[1]\x00", "\x00", "[\x001]", "\"\x1f\"", "\"\x00\"", "[\"a\x01\"]", "{\"k\x02\":1}",
		"[\"" + bs + "u00\x1f1\"]", "\"" + bs + "u00zz\"", "\"" + bs + "uD800" + bs + "u00zz\"", "\"\x7f\"", "\"\t\"", "[\"<&>\"]", "{\"<\":\"&\"}", "\"" + string(rune(0x2028)) + string(rune(0x2029)) + "\"", "<>&", "\xe2\x80", "\xe2\x80\xa8\xe2\x80\xa9",
		"\"" + bs + "u003c" + bs + "/" + bs + "b\"", " \t\r\n[ \t\r\n] \t\r\n", "\"\xff\"", "[\"\xed\xa0\x80\"]"} {
		buf = append(buf[:0], d...)
		check()
	}
	// nesting beyond 10000 levels is an error for encoding/json (and must not exhaust the stack)
	for _, d := range []string{strings.Repeat("[", 10001) + strings.Repeat("]", 10001), strings.Repeat(`{"a":`, 10001) + "1" + strings.Repeat("}", 10001),
		strings.Repeat("[", 10000) + "{}" + strings.Repeat("]", 10000), strings.Repeat("[", 400000), strings.Repeat("[", 9999) + `"[[{{"` + strings.Repeat("]", 9999) + "x"} {
		buf = append(buf[:0], d...)
		check()
	}
	buf = buf[:0]
	var names []string
	for k := range classes {
		names = append(names, k)
	}
	sort.Strings(names)
	for _, k := range names {
		fmt.Printf("BOUNDED-CLASS %s example=%q\n", k, classes[k])
	}
	fmt.Printf("BOUNDED-OK cases=%d bound=\"all byte strings of length 1..%d over %q, destination pre-filled with %q, Compact, Indent(prefix '>', indent ' '), Valid and HTMLEscape against encoding/json, plus 31 documents outside the alphabet (numbers beyond float64, NUL, control characters, escapes, HTML characters)\"\n", n, maxLen, alphabet, pre)
}
