package json

// Bounded stand-in (labelled bounded, never counted as proved) for the part of
// C18 that no function contract states: Compact and Indent accept exactly the
// texts encoding/json accepts and append the same bytes. Exhaustive over all
// byte strings up to a length bound over a structural alphabet; destination
// buffers empty and pre-filled. Disagreements are grouped into classes; the
// harness reports each class (known ones are listed in known_findings.json).

import (
	"bytes"
	stdjson "encoding/json"
	"fmt"
	"os"
	"sort"
	"testing"
)

func TestGovcBounded(t *testing.T) {
	alphabet := []byte(`{}[]":,1a `)
	maxLen := 7
	if os.Getenv("GOVC_TIER") == "thorough" {
		maxLen = 8
	}
	classes := map[string]string{}
	n := 0
	buf := make([]byte, 0, maxLen)
	pre := []byte("XY")
	var check func()
	record := func(class string, doc []byte) {
		if _, ok := classes[class]; !ok {
			classes[class] = string(doc)
		}
	}
	check = func() {
		doc := buf
		n++
		var a, b bytes.Buffer
		a.Write(pre)
		b.Write(pre)
		e1 := Compact(&a, doc)
		e2 := stdjson.Compact(&b, doc)
		switch {
		case (e1 == nil) != (e2 == nil):
			if e1 == nil {
				record("compact-accepts-invalid", doc)
			} else {
				record("compact-rejects-valid", doc)
			}
		case e1 == nil && !bytes.Equal(a.Bytes(), b.Bytes()):
			record("compact-output-differs", doc)
		case e1 != nil && !bytes.Equal(a.Bytes(), pre):
			record("compact-error-changes-buffer", doc)
		}
		var c, d bytes.Buffer
		c.Write(pre)
		d.Write(pre)
		e3 := Indent(&c, doc, ">", " ")
		e4 := stdjson.Indent(&d, doc, ">", " ")
		switch {
		case (e3 == nil) != (e4 == nil):
			if e3 == nil {
				record("indent-accepts-invalid", doc)
			} else {
				record("indent-rejects-valid", doc)
			}
		case e3 == nil && !bytes.Equal(c.Bytes(), d.Bytes()):
			if bytes.Equal(bytes.TrimRight(c.Bytes(), " \t\r\n"), bytes.TrimRight(d.Bytes(), " \t\r\n")) {
				record("indent-trailing-whitespace-dropped", doc)
			} else {
				record("indent-output-differs", doc)
			}
		case e3 != nil && !bytes.Equal(c.Bytes(), pre):
			record("indent-error-changes-buffer", doc)
		}
	}
	var rec func(depth int)
	rec = func(depth int) {
		if len(buf) > 0 {
			check()
		}
		if depth == maxLen {
			return
		}
		for _, ch := range alphabet {
			buf = append(buf, ch)
			rec(depth + 1)
			buf = buf[:len(buf)-1]
		}
	}
	rec(0)
	var names []string
	for k := range classes {
		names = append(names, k)
	}
	sort.Strings(names)
	for _, k := range names {
		fmt.Printf("BOUNDED-CLASS %s example=%q\n", k, classes[k])
	}
	fmt.Printf("BOUNDED-OK cases=%d bound=\"all byte strings of length 1..%d over %q, destination pre-filled with %q, Compact and Indent(prefix '>', indent ' ') against encoding/json\"\n", n, maxLen, alphabet, pre)
}
