package json

// Bounded stand-in (labelled bounded, never counted as proved) for the parts of C07
// outside the frame contracts of the array / slice / pointer / bool / string decoders:
// struct, map, interface, embedded and byte-slice destinations. Every destination type
// is laid out between two canary blocks inside a larger object; after decoding a corpus
// of valid, invalid and truncated documents (buffer and stream mode) the canaries must
// be intact and the destination must be traversable by reflect (deep copy through
// encoding/json's encoder) without a fault.

import (
	"bytes"
	stdjson "encoding/json"
	"fmt"
	"os"
	"reflect"
	"runtime"
	"sort"
	"testing"
)

type govcElem3 struct{ A, B, C byte }
type govcElem24 struct {
	A int64
	B string
}
type govcElem64 struct{ A [8]int64 }
type govcEmb struct {
	X int8
	Y string
}
type govcMixed struct {
	A int8
	B [3]uint16
	C string
	D []int32
	E *int64
	F map[string]int8
	G interface{}
	H bool
	I [2]govcElem3
	J float32
	K []byte
	L *govcEmb
	govcEmb
}

type govcStringTagged struct {
	A byte
	N int8 `json:"n,string"`
	B byte
	U uint16 `json:"u,string"`
	C byte
	S string  `json:"s,string"`
	F float32 `json:"f,string"`
	D byte
	P *int `json:"p,string"`
	T bool `json:"t,string"`
	E byte
}

const govcPrefill = `{"A":7,"B":[7,7,7],"C":"old","D":[7,7,7,7],"I":[{"A":7,"B":7,"C":7},{"A":7,"B":7,"C":7}],"E":7,"n":"7","u":"7","f":"7","t":"true","X":7,"Y":"y"}`

func TestGovcBounded(t *testing.T) {
	thorough := os.Getenv("GOVC_TIER") == "thorough"
	types := []reflect.Type{
		reflect.TypeOf([3]uint8{}), reflect.TypeOf([3]uint16{}), reflect.TypeOf([2]govcElem3{}), reflect.TypeOf([2]govcElem24{}), reflect.TypeOf([2]govcElem64{}),
		reflect.TypeOf([2][3]uint8{}), reflect.TypeOf([]uint8(nil)), reflect.TypeOf([]govcElem3(nil)), reflect.TypeOf([]govcElem64(nil)),
		reflect.TypeOf(""), reflect.TypeOf(false), reflect.TypeOf(int8(0)), reflect.TypeOf(uint16(0)), reflect.TypeOf(float32(0)),
		reflect.TypeOf((*int8)(nil)), reflect.TypeOf((**govcElem3)(nil)), reflect.TypeOf(map[string]int8(nil)), reflect.TypeOf(map[string]govcElem3(nil)),
		reflect.TypeOf((*interface{})(nil)).Elem(), reflect.TypeOf(govcMixed{}), reflect.TypeOf([2]govcMixed{}), reflect.TypeOf(govcEmb{}),
		reflect.TypeOf(struct {
			A [3]uint8
			B [8]uint8
		}{}),
		reflect.TypeOf(govcStringTagged{}),
	}
	docs := []string{
		`null`, `[]`, `[1]`, `[1,2]`, `[1,2,3]`, `[1,2,3,4,5]`, `[[1],[2,3,4,5]]`, `{}`, `{"A":1}`, `{"A":[1]}`, `{"A":[],"B":[1,2]}`, `{"B":[1,2,3,4],"C":"x","D":[1,2]}`,
		`{"E":5,"F":{"k":1},"G":[1,"a",{}],"H":true,"I":[{"A":1},{"B":2,"C":3}],"J":1.5,"K":"YWJj","L":{"X":1,"Y":"y"},"X":3,"Y":"z"}`,
		`{"A":{"A":1,"B":"b"}}`, `[{"A":1,"B":"s"},{"A":[1,2,3,4,5,6,7,8,9]}]`, `"str"`, `"YWJj"`, `true`, `7`, `-1.5`, `300`, `70000`,
		`[1,2`, `{"A":[1,`, `{"A":1,"B"`, `[1,2,3,4,5,6,7,8,9,10,11,12]`, `{"k":1,"j":2}`, `{"k":{"A":1,"B":2,"C":3}}`, `[{"A":[9,9,9]}]`, `{"A":"x","B":null}`,
		`{"n":null}`, `{"n":"5","u":null,"s":null,"f":null,"p":null,"t":null}`, `{"n":"-3","u":"9","s":"\"q\"","f":"1.5","p":"7","t":"true"}`,
		`[null,null,null,null]`, `{"I":[null,{"A":7}],"B":[null,1]}`, `{"D":null,"E":null,"F":null,"K":null,"L":null}`,
	}
	if thorough {
		docs = append(docs, `[`+string(bytes.Repeat([]byte(`{"A":[1,2,3,4,5,6,7,8]},`), 40))+`{}]`, `{"C":"`+string(bytes.Repeat([]byte("s"), 700))+`","D":[`+string(bytes.Repeat([]byte("1,"), 300))+`1]}`)
	}
	classes := map[string]string{}
	record := func(class, what string) {
		if _, ok := classes[class]; !ok {
			classes[class] = what
		}
	}
	n := 0
	const canary = 0xA5
	for _, typ := range types {
		outer := reflect.StructOf([]reflect.StructField{
			{Name: "Pre", Type: reflect.TypeOf([16]byte{})},
			{Name: "X", Type: typ},
			{Name: "Post", Type: reflect.TypeOf([16]byte{})},
		})
		for _, d := range docs {
			for mode := 0; mode < 2; mode++ {
				n++
				ov := reflect.New(outer).Elem()
				for i := 0; i < 16; i++ {
					ov.Field(0).Index(i).SetUint(canary)
					ov.Field(2).Index(i).SetUint(canary)
				}
				// pre-fill the destination with a previous value so that stale contents matter
				_ = stdjson.Unmarshal([]byte(`[7,7,7]`), ov.Field(1).Addr().Interface())
				_ = stdjson.Unmarshal([]byte(govcPrefill), ov.Field(1).Addr().Interface())
				what := fmt.Sprintf("type=%v doc=%s mode=%d", typ, d, mode)
				func() {
					defer func() {
						if r := recover(); r != nil {
							record(fmt.Sprintf("panic-%v", typ.Kind()), fmt.Sprintf("%s: %v", what, r))
						}
					}()
					if mode == 0 {
						_ = Unmarshal([]byte(d), ov.Field(1).Addr().Interface())
					} else {
						_ = NewDecoder(bytes.NewReader([]byte(d))).Decode(ov.Field(1).Addr().Interface())
					}
				}()
				for i := 0; i < 16; i++ {
					if ov.Field(0).Index(i).Uint() != canary {
						record(fmt.Sprintf("canary-before-clobbered-%v", typ.Kind()), what)
					}
					if ov.Field(2).Index(i).Uint() != canary {
						record(fmt.Sprintf("canary-after-clobbered-%v", typ.Kind()), what)
					}
				}
				// members the document does not address keep their previous contents: compare the fields whose
				// names do not occur in the document with a copy that was only pre-filled
				if typ.Kind() == reflect.Struct {
					ref := reflect.New(typ).Elem()
					_ = stdjson.Unmarshal([]byte(`[7,7,7]`), ref.Addr().Interface())
					_ = stdjson.Unmarshal([]byte(govcPrefill), ref.Addr().Interface())
					got := ov.Field(1)
					for fi := 0; fi < typ.NumField(); fi++ {
						f := typ.Field(fi)
						name := f.Name
						if tag := f.Tag.Get("json"); tag != "" {
							if i := bytes.IndexByte([]byte(tag), ','); i > 0 {
								name = tag[:i]
							} else if i < 0 {
								name = tag
							}
						}
						if f.Anonymous || bytes.Contains(bytes.ToLower([]byte(d)), []byte(`"`+string(bytes.ToLower([]byte(name)))+`"`)) {
							continue
						}
						if !reflect.DeepEqual(got.Field(fi).Interface(), ref.Field(fi).Interface()) {
							record(fmt.Sprintf("unaddressed-field-changed-%v", typ.Name()), fmt.Sprintf("%s: field %s is %v, was %v", what, f.Name, got.Field(fi).Interface(), ref.Field(fi).Interface()))
						}
					}
				}
				// the destination must be a well-formed Go value: traverse it completely
				func() {
					defer func() {
						if r := recover(); r != nil {
							record(fmt.Sprintf("destination-not-traversable-%v", typ.Kind()), fmt.Sprintf("%s: %v", what, r))
						}
					}()
					_, _ = stdjson.Marshal(ov.Field(1).Interface())
					_ = fmt.Sprintf("%v", ov.Field(1).Interface())
				}()
			}
		}
		runtime.GC()
	}
	// a pointer that was set before a failing decode stays set, with the fields the document never mentioned
	{
		type inner struct {
			X int
			Y string
		}
		type outer struct {
			A *int
			B *inner
		}
		for _, doc := range []string{`{"A":"x"}`, `{"B":{"X":2,"Y":3}}`, `{"B":{"X":"s"}}`, `{"B":[1]}`, `{"B":{"X":9`, `{"A":[}`} {
			for mode := 0; mode < 2; mode++ {
				n++
				seven := 7
				v := outer{A: &seven, B: &inner{X: 1, Y: "y"}}
				var err error
				if mode == 0 {
					err = Unmarshal([]byte(doc), &v)
				} else {
					err = NewDecoder(bytes.NewReader([]byte(doc))).Decode(&v)
				}
				if err != nil && (v.A == nil || v.B == nil || v.B.Y != "y") {
					record("pointer-dropped-after-failed-decode", fmt.Sprintf("%s mode=%d: A=%v B=%v", doc, mode, v.A, v.B))
				}
			}
		}
	}
	var ks []string
	for k := range classes {
		ks = append(ks, k)
	}
	sort.Strings(ks)
	for _, k := range ks {
		fmt.Printf("BOUNDED-CLASS %s example: %s\n", k, classes[k])
	}
	fmt.Printf("BOUNDED-OK destination canaries: %d types x %d documents x {buffer, stream} = %d decodes with 16-byte canaries before and after, %d disagreement classes\n", len(types), len(docs), n, len(ks))
}
