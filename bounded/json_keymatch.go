package json

// Bounded stand-in (labelled bounded, never counted as proved) for the parts of
// C15 that the key-scanner contracts assume or leave outside: the bitmap built by
// tryOptimize agrees with the field names (wfRows/wfLastRow preconditions), the
// fieldMap fallback, and the stream-mode twins. Struct types are built with
// reflect.StructOf from name sets over a small alphabet; every key up to a
// length bound is tried in raw, first-character-escaped and fully \u-escaped
// spelling, in buffer and stream mode, and the field that receives the value is
// compared with encoding/json. Disagreements are grouped into classes.

import (
	"bytes"
	stdjson "encoding/json"
	"fmt"
	"os"
	"reflect"
	"sort"
	"strings"
	"testing"
)

func govcKeySpellings(key string) []string {
	esc := func(c byte) string { return fmt.Sprintf(`\u%04x`, c) }
	out := []string{key}
	if len(key) > 0 {
		out = append(out, esc(key[0])+key[1:])
		var sb strings.Builder
		for i := 0; i < len(key); i++ {
			sb.WriteString(esc(key[i]))
		}
		out = append(out, sb.String())
	}
	return out
}

func govcStructOf(names []string) reflect.Type {
	var fs []reflect.StructField
	for i, n := range names {
		fs = append(fs, reflect.StructField{Name: fmt.Sprintf("F%d", i), Type: reflect.TypeOf(0), Tag: reflect.StructTag(`json:"` + n + `"`)})
	}
	return reflect.StructOf(fs)
}

func govcCollide(names []string) bool {
	seen := map[string]bool{}
	for _, n := range names {
		l := strings.ToLower(n)
		if seen[l] {
			return true
		}
		seen[l] = true
	}
	return false
}

func govcSetField(v reflect.Value) int {
	for i := 0; i < v.NumField(); i++ {
		if v.Field(i).Int() != 0 {
			return i
		}
	}
	return -1
}

type govcE1 struct {
	F int `json:"X"`
}
type govcE2 struct{ X int }
type govcE3 struct{ X int }
type govcD1 struct{ govcE2 }
type govcT1 struct{ govcE1 }
type govcEmbTagFirst struct {
	govcE1
	govcE2
}
type govcEmbTagLast struct {
	govcE2
	govcE1
}
type govcEmbTagMiddle struct {
	govcE2
	govcE1
	govcE3
}
type govcEmbDeepFirst struct {
	govcD1
	govcE3
}
type govcEmbDeepLast struct {
	govcE3
	govcD1
}
type govcEmbDeepTagged struct {
	govcE3
	govcT1
}
type govcEmbAmbiguous struct {
	govcE2
	govcE3
}
type govcEmbOuter struct {
	govcE2
	X int
}

func TestGovcBounded(t *testing.T) {
	nameAlpha := []byte("abA")
	keyAlpha := []byte("abAB_")
	maxKey := 3
	if os.Getenv("GOVC_TIER") == "thorough" {
		maxKey = 4
	}
	var names []string
	for _, c := range nameAlpha {
		names = append(names, string(c))
		for _, d := range nameAlpha {
			names = append(names, string([]byte{c, d}))
		}
	}
	var shapes [][]string
	for i := range names {
		shapes = append(shapes, []string{names[i]})
		for j := range names {
			if i != j {
				shapes = append(shapes, []string{names[i], names[j]})
			}
		}
	}
	shapes = append(shapes,
		[]string{"a", "b", "ab", "ba", "aa", "bb", "abb", "aba", "aab"},
		[]string{"a", "b", "ab", "ba", "aa", "bb", "abb", "aba", "aab", "bab", "bba", "bbb", "aaa", "baa", "a_", "b_", "_a"},
		[]string{"Ab", "aB"},
		[]string{"ab", "AB", "Ab"},
	)
	var keys []string
	var gen func(prefix []byte)
	gen = func(prefix []byte) {
		keys = append(keys, string(prefix))
		if len(prefix) == maxKey {
			return
		}
		for _, c := range keyAlpha {
			gen(append(append([]byte{}, prefix...), c))
		}
	}
	gen(nil)
	classes := map[string]string{}
	record := func(class, what string) {
		if _, ok := classes[class]; !ok {
			classes[class] = what
		}
	}
	n := 0
	for _, shape := range shapes {
		typ := govcStructOf(shape)
		for _, key := range keys {
			for si, sp := range govcKeySpellings(key) {
				doc := []byte(`{"` + sp + `":7}`)
				n++
				want := reflect.New(typ)
				errW := stdjson.Unmarshal(doc, want.Interface())
				for mode := 0; mode < 2; mode++ {
					got := reflect.New(typ)
					var errG error
					m := "buffer"
					if mode == 0 {
						errG = Unmarshal(doc, got.Interface())
					} else {
						m = "stream"
						errG = NewDecoder(bytes.NewReader(doc)).Decode(got.Interface())
					}
					spn := []string{"raw", "first-escaped", "all-escaped"}[si]
					what := fmt.Sprintf("names=%q doc=%s", shape, doc)
					switch {
					case (errG == nil) != (errW == nil):
						record(m+"-"+spn+"-verdict-differs", what)
					case errG == nil && !reflect.DeepEqual(got.Elem().Interface(), want.Elem().Interface()):
						// root-cause discriminator, so that a listed finding cannot hide a different one
						kind := "wrong-field"
						if govcCollide(shape) {
							kind = "wrong-field-case-colliding-names"
							gi := govcSetField(got.Elem())
							if gi >= 0 && shape[gi] == strings.ToLower(key) && shape[gi] != key {
								kind = "later-field-named-like-lowercased-key-wins"
							}
						}
						if kind == "later-field-named-like-lowercased-key-wins" {
							record(kind, fmt.Sprintf("%s got=%v want=%v", what, got.Elem().Interface(), want.Elem().Interface()))
							continue
						}
						record(m+"-"+spn+"-"+kind, fmt.Sprintf("%s got=%v want=%v", what, got.Elem().Interface(), want.Elem().Interface()))
					}
				}
			}
		}
	}
	// embedded structs: shallowest wins, at equal depth a tagged field wins, ambiguous names are dropped,
	// for decoding (which field receives the value) and encoding (which members are produced)
	embedded := []struct {
		cause string
		mk    func() interface{}
		fill  func() interface{}
	}{
		{"embedded-same-depth-tagged-does-not-win", func() interface{} { return new(govcEmbTagFirst) }, func() interface{} { return govcEmbTagFirst{govcE1{1}, govcE2{2}} }},
		{"embedded-same-depth-tagged-does-not-win", func() interface{} { return new(govcEmbTagLast) }, func() interface{} { return govcEmbTagLast{govcE2{2}, govcE1{1}} }},
		{"embedded-same-depth-tagged-does-not-win", func() interface{} { return new(govcEmbTagMiddle) }, func() interface{} { return govcEmbTagMiddle{govcE2{1}, govcE1{2}, govcE3{3}} }},
		{"embedded-depth-not-tracked", func() interface{} { return new(govcEmbDeepFirst) }, func() interface{} { return govcEmbDeepFirst{govcD1{govcE2{1}}, govcE3{2}} }},
		{"embedded-depth-not-tracked", func() interface{} { return new(govcEmbDeepLast) }, func() interface{} { return govcEmbDeepLast{govcE3{2}, govcD1{govcE2{1}}} }},
		{"embedded-depth-not-tracked", func() interface{} { return new(govcEmbDeepTagged) }, func() interface{} { return govcEmbDeepTagged{govcE3{1}, govcT1{govcE1{2}}} }},
		{"embedded-ambiguous-not-dropped", func() interface{} { return new(govcEmbAmbiguous) }, func() interface{} { return govcEmbAmbiguous{govcE2{1}, govcE3{2}} }},
		{"embedded-outer-field-does-not-win", func() interface{} { return new(govcEmbOuter) }, func() interface{} { return govcEmbOuter{govcE2{1}, 2} }},
	}
	for _, e := range embedded {
		for _, key := range []string{"X", "x"} {
			doc := []byte(`{"` + key + `":7}`)
			want := e.mk()
			errW := stdjson.Unmarshal(doc, want)
			for mode := 0; mode < 2; mode++ {
				n++
				got := e.mk()
				var errG error
				if mode == 0 {
					errG = Unmarshal(doc, got)
				} else {
					errG = NewDecoder(bytes.NewReader(doc)).Decode(got)
				}
				if (errG == nil) != (errW == nil) || (errG == nil && !reflect.DeepEqual(got, want)) {
					record(e.cause+"-decode", fmt.Sprintf("%T doc=%s got=%+v (%v) want=%+v (%v)", got, doc, reflect.ValueOf(got).Elem().Interface(), errG, reflect.ValueOf(want).Elem().Interface(), errW))
				}
			}
		}
		n++
		v := e.fill()
		wantB, _ := stdjson.Marshal(v)
		gotB, err := Marshal(v)
		if err != nil || !bytes.Equal(gotB, wantB) {
			record(e.cause+"-encode", fmt.Sprintf("%T got=%s (%v) want=%s", v, gotB, err, wantB))
		}
	}
	var ks []string
	for k := range classes {
		ks = append(ks, k)
	}
	sort.Strings(ks)
	for _, k := range ks {
		fmt.Printf("BOUNDED-CLASS %s example: %s\n", k, classes[k])
	}
	fmt.Printf("BOUNDED-OK key selection against encoding/json (plus 8 embedded-struct shapes, decode and encode): %d shapes x %d keys (length <= %d over %q) x 3 spellings x {buffer, stream}: %d documents, %d disagreement classes\n",
		len(shapes), len(keys), maxKey, keyAlpha, n, len(ks))
}
