package json

// Bounded stand-in (labelled bounded, never counted as proved) for the part of C16 that
// lies between the proved leaves and the user: which emitter and which width the compiled
// program uses for an integer in a given position (the reflection-driven compilers are
// trusted in the contracts). Every integer kind is encoded and decoded at its boundary
// values as a plain value, a pointer, a struct field (plain, omitempty, string-tagged), a
// slice and array element, a map key and a map value, through Marshal, MarshalIndent,
// Unmarshal and Decoder, and compared with strconv and with encoding/json.

import (
	"bytes"
	stdjson "encoding/json"
	"fmt"
	"math"
	"reflect"
	"sort"
	"testing"
)

func TestGovcBounded(t *testing.T) {
	classes := map[string]string{}
	record := func(class, what string) {
		if _, ok := classes[class]; !ok {
			classes[class] = what
		}
	}
	n := 0
	kinds := []reflect.Type{reflect.TypeOf(int(0)), reflect.TypeOf(int8(0)), reflect.TypeOf(int16(0)), reflect.TypeOf(int32(0)), reflect.TypeOf(int64(0)),
		reflect.TypeOf(uint(0)), reflect.TypeOf(uint8(0)), reflect.TypeOf(uint16(0)), reflect.TypeOf(uint32(0)), reflect.TypeOf(uint64(0)), reflect.TypeOf(uintptr(0))}
	for _, k := range kinds {
		var vals []reflect.Value
		add := func(i int64, u uint64) {
			v := reflect.New(k).Elem()
			if k.Kind() >= reflect.Int && k.Kind() <= reflect.Int64 {
				v.SetInt(i)
			} else {
				v.SetUint(u)
			}
			vals = append(vals, v)
		}
		bits := uint(k.Bits())
		for _, m := range []uint64{0, 1, 9, 10, 99, 100, 101, 999, 1000, 65535, 65536, 99999, 4294967295, 4294967296, 1 << 40, 999999999999999999, 1000000000000000000} {
			add(int64(m), m)
			add(-int64(m), m)
		}
		add(math.MinInt64>>(64-bits), math.MaxUint64>>(64-bits))
		add(math.MaxInt64>>(64-bits), math.MaxUint64>>(64-bits)-1)
		add((math.MinInt64>>(64-bits))+1, (math.MaxUint64>>(64-bits))/2+1)
		for _, v := range vals {
			// containers holding v in every position
			st := reflect.New(reflect.StructOf([]reflect.StructField{
				{Name: "A", Type: k, Tag: `json:"a"`},
				{Name: "B", Type: k, Tag: `json:"b,omitempty"`},
				{Name: "C", Type: k, Tag: `json:"c,string"`},
				{Name: "D", Type: reflect.PtrTo(k), Tag: `json:"d"`},
				{Name: "E", Type: reflect.SliceOf(k), Tag: `json:"e"`},
				{Name: "F", Type: reflect.ArrayOf(2, k), Tag: `json:"f"`},
				{Name: "G", Type: reflect.MapOf(k, k), Tag: `json:"g"`},
				{Name: "H", Type: reflect.MapOf(reflect.TypeOf(""), k), Tag: `json:"h"`},
				{Name: "S", Type: reflect.PtrTo(k), Tag: `json:"s,string"`},
				{Name: "T", Type: reflect.PtrTo(k), Tag: `json:"t,omitempty,string"`},
				{Name: "U", Type: k, Tag: `json:"u,omitempty,string"`},
				{Name: "Z", Type: k, Tag: `json:"z"`},
			})).Elem()
			st.Field(0).Set(v)
			st.Field(1).Set(v)
			st.Field(2).Set(v)
			p := reflect.New(k)
			p.Elem().Set(v)
			st.Field(3).Set(p)
			st.Field(4).Set(reflect.Append(reflect.MakeSlice(reflect.SliceOf(k), 0, 2), v, v))
			st.Field(5).Index(1).Set(v)
			m := reflect.MakeMap(reflect.MapOf(k, k))
			m.SetMapIndex(v, v)
			st.Field(6).Set(m)
			m2 := reflect.MakeMap(reflect.MapOf(reflect.TypeOf(""), k))
			m2.SetMapIndex(reflect.ValueOf("k"), v)
			st.Field(7).Set(m2)
			ps := reflect.New(k)
			ps.Elem().Set(v)
			st.Field(8).Set(ps)
			st.Field(9).Set(ps)
			st.Field(10).Set(v)
			st.Field(11).Set(v)
			for _, val := range []interface{}{v.Interface(), p.Interface(), st.Interface(), st.Addr().Interface()} {
				n++
				what := fmt.Sprintf("%v value %v in %T", k, v.Interface(), val)
				want, werr := stdjson.Marshal(val)
				got, err := Marshal(val)
				if werr == nil && (err != nil || !bytes.Equal(got, want)) {
					record("encode-differs-"+k.String(), fmt.Sprintf("%s: got %s (%v) want %s", what, got, err, want))
					continue
				}
				wantI, _ := stdjson.MarshalIndent(val, "", " ")
				if gotI, err := MarshalIndent(val, "", " "); err != nil || !bytes.Equal(gotI, wantI) {
					record("encode-indent-differs-"+k.String(), fmt.Sprintf("%s: got %s (%v) want %s", what, gotI, err, wantI))
				}
				// decode it again, buffer and stream
				for mode := 0; mode < 2; mode++ {
					back := reflect.New(reflect.TypeOf(val))
					var derr error
					if mode == 0 {
						derr = Unmarshal(want, back.Interface())
					} else {
						derr = NewDecoder(bytes.NewReader(want)).Decode(back.Interface())
					}
					if derr != nil || !reflect.DeepEqual(back.Elem().Interface(), val) {
						record(fmt.Sprintf("decode-differs-%v-mode%d", k, mode), fmt.Sprintf("%s: text %s decodes to %v (%v)", what, want, back.Elem().Interface(), derr))
					}
				}
			}
			// out-of-range neighbours must be errors: one past the maximum and, for signed kinds, one below the minimum
			if bits < 64 {
				var lits []string
				if k.Kind() >= reflect.Int && k.Kind() <= reflect.Int64 {
					lits = []string{fmt.Sprint(int64(1) << (bits - 1)), fmt.Sprint(-(int64(1) << (bits - 1)) - 1)}
				} else {
					lits = []string{fmt.Sprint(uint64(1) << bits), "-1"}
				}
				for _, l := range lits {
					for mode := 0; mode < 2; mode++ {
						n++
						back := reflect.New(k)
						var derr error
						if mode == 0 {
							derr = Unmarshal([]byte(l), back.Interface())
						} else {
							derr = NewDecoder(bytes.NewReader([]byte(l))).Decode(back.Interface())
						}
						if derr == nil {
							record(fmt.Sprintf("out-of-range-accepted-%v-mode%d", k, mode), fmt.Sprintf("%s decodes into %v as %v", l, k, back.Elem().Interface()))
						}
					}
				}
			}
		}
	}
	// what is not one whole JSON integer is an error under the string tag and as a map key
	for _, k := range kinds {
		stT := reflect.StructOf([]reflect.StructField{{Name: "A", Type: k, Tag: `json:"a,string"`}})
		mT := reflect.MapOf(k, reflect.TypeOf(0))
		for _, txt := range []string{"1.5", "1.0", "1e2", "0.0", "01", "-01", "1x", "0x10", " 1", "1 ", "", "-", "1_0", "--1", "1-"} {
			for mode := 0; mode < 2; mode++ {
				for _, tc := range []struct {
					what string
					typ  reflect.Type
					doc  string
				}{{"string-tag", stT, `{"a":"` + txt + `"}`}, {"map-key", mT, `{"` + txt + `":1}`}} {
					n++
					back := reflect.New(tc.typ)
					var derr error
					if mode == 0 {
						derr = Unmarshal([]byte(tc.doc), back.Interface())
					} else {
						derr = NewDecoder(bytes.NewReader([]byte(tc.doc))).Decode(back.Interface())
					}
					if derr == nil {
						record(fmt.Sprintf("not-an-integer-accepted-%s-mode%d", tc.what, mode), fmt.Sprintf("%s decodes into %v as %v", tc.doc, tc.typ, back.Elem().Interface()))
					}
				}
			}
		}
		for _, doc := range []string{`{null:1}`, `{1:1}`, `{true:1}`, `{"1":1,null:2}`} {
			n++
			back := reflect.New(mT)
			if Unmarshal([]byte(doc), back.Interface()) == nil {
				record("non-string-key-accepted", fmt.Sprintf("%s decodes into %v as %v", doc, mT, back.Elem().Interface()))
			}
		}
	}
	var ks []string
	for k := range classes {
		ks = append(ks, k)
	}
	sort.Strings(ks)
	for _, k := range ks {
		fmt.Printf("BOUNDED-CLASS %s example: %s\n", k, classes[k])
	}
	fmt.Printf("BOUNDED-OK integers in every position: %d kinds x boundary values x {value, pointer, struct with plain/omitempty/string/pointer/slice/array/map-key/map-value fields} through Marshal, MarshalIndent, Unmarshal, Decoder: %d cases, %d disagreement classes\n", len(kinds), n, len(ks))
}
