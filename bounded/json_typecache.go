package json

// Bounded stand-in (labelled bounded, never counted as proved) for the part of C14 that the
// contracts do not reach: types whose descriptor lies outside the address window inferred from
// the linker (types created at run time by reflect), which both caches keep in a copy-on-write
// map instead of the address-indexed slice. Families of run-time types with the same memory
// layout but different field names are encoded and decoded in interleaved orders, a new type
// being compiled between re-uses of the earlier ones; every result must equal encoding/json's
// and the first result for the same value.

import (
	"bytes"
	stdjson "encoding/json"
	"fmt"
	"reflect"
	"sort"
	"testing"
)

func TestGovcBounded(t *testing.T) {
	classes := map[string]string{}
	record := func(class, what string) {
		if _, ok := classes[class]; !ok {
			classes[class] = what
		}
	}
	n := 0
	type entry struct {
		typ   reflect.Type
		val   reflect.Value
		first []byte
	}
	var entries []*entry
	mkStruct := func(i int) reflect.Type {
		return reflect.StructOf([]reflect.StructField{
			{Name: fmt.Sprintf("GovcA%d", i), Type: reflect.TypeOf(int64(0))},
			{Name: fmt.Sprintf("GovcB%d", i), Type: reflect.TypeOf(""), Tag: reflect.StructTag(fmt.Sprintf(`json:"b%d,omitempty"`, i))},
			{Name: fmt.Sprintf("GovcC%d", i), Type: reflect.TypeOf([]int(nil))},
		})
	}
	fill := func(v reflect.Value, i int) {
		switch v.Kind() {
		case reflect.Struct:
			v.Field(0).SetInt(int64(1000 + i))
			v.Field(1).SetString(fmt.Sprintf("s%d", i))
			v.Field(2).Set(reflect.ValueOf([]int{i, i + 1}))
		case reflect.Slice:
			v.Set(reflect.MakeSlice(v.Type(), 2, 2))
			for k := 0; k < 2; k++ {
				fillElem(v.Index(k), i+k)
			}
		case reflect.Array:
			for k := 0; k < v.Len(); k++ {
				fillElem(v.Index(k), i+k)
			}
		case reflect.Map:
			v.Set(reflect.MakeMap(v.Type()))
			e := reflect.New(v.Type().Elem()).Elem()
			fillElem(e, i)
			v.SetMapIndex(reflect.ValueOf(fmt.Sprintf("k%d", i)), e)
		case reflect.Ptr:
			v.Set(reflect.New(v.Type().Elem()))
			fillElem(v.Elem(), i)
		}
	}
	check := func(e *entry, phase string) {
		n++
		defer func() {
			if r := recover(); r != nil {
				record("panic-while-using-a-runtime-type-"+e.typ.Kind().String(), fmt.Sprintf("%s: type %v: %v", phase, e.typ, r))
			}
		}()
		want, werr := stdjson.Marshal(e.val.Interface())
		got, err := Marshal(e.val.Interface())
		what := fmt.Sprintf("%s: type %v", phase, e.typ)
		if werr != nil {
			return
		}
		if err != nil || !bytes.Equal(got, want) {
			record("encode-of-runtime-type-differs-"+e.typ.Kind().String(), fmt.Sprintf("%s: got %s (%v) want %s", what, got, err, want))
		}
		if gotI, err := MarshalIndent(e.val.Interface(), "", " "); err == nil {
			var c bytes.Buffer
			if stdjson.Compact(&c, gotI) != nil || !bytes.Equal(c.Bytes(), want) {
				record("indent-encode-of-runtime-type-differs-"+e.typ.Kind().String(), fmt.Sprintf("%s: got %s want %s", what, c.Bytes(), want))
			}
		}
		// as the dynamic type inside an interface
		if gotW, err := Marshal([]interface{}{e.val.Interface()}); err != nil || !bytes.Equal(gotW, append(append([]byte("["), want...), ']')) {
			record("encode-of-runtime-type-in-interface-differs-"+e.typ.Kind().String(), fmt.Sprintf("%s: got %s (%v) want [%s]", what, gotW, err, want))
		}
		if e.first == nil {
			e.first = append([]byte{}, got...)
		} else if !bytes.Equal(got, e.first) {
			record("encode-of-runtime-type-changes-over-time-"+e.typ.Kind().String(), fmt.Sprintf("%s: first %s now %s", what, e.first, got))
		}
		// decode: buffer and stream
		for mode := 0; mode < 2; mode++ {
			back := reflect.New(e.typ)
			wback := reflect.New(e.typ)
			if stdjson.Unmarshal(want, wback.Interface()) != nil {
				continue
			}
			var derr error
			if mode == 0 {
				derr = Unmarshal(want, back.Interface())
			} else {
				derr = NewDecoder(bytes.NewReader(want)).Decode(back.Interface())
			}
			if derr != nil || !reflect.DeepEqual(back.Elem().Interface(), wback.Elem().Interface()) {
				record(fmt.Sprintf("decode-into-runtime-type-differs-%v-mode%d", e.typ.Kind(), mode), fmt.Sprintf("%s: text %s decodes to %+v (%v) want %+v", what, want, back.Elem().Interface(), derr, wback.Elem().Interface()))
			}
		}
	}
	add := func(typ reflect.Type, i int) {
		e := &entry{typ: typ, val: reflect.New(typ).Elem()}
		fill(e.val, i)
		entries = append(entries, e)
		check(e, "first use")
		// every earlier type again, after the new one was compiled
		for _, old := range entries[:len(entries)-1] {
			check(old, fmt.Sprintf("after first use of %v", typ))
		}
	}
	for i := 0; i < 6; i++ {
		st := mkStruct(i)
		add(st, i)
		switch i % 3 {
		case 0:
			add(reflect.SliceOf(st), i)
			add(reflect.PtrTo(st), i)
		case 1:
			add(reflect.MapOf(reflect.TypeOf(""), st), i)
			add(reflect.ArrayOf(2, st), i)
		default:
			add(reflect.SliceOf(reflect.PtrTo(st)), i)
		}
	}
	// backwards and twice more
	for round := 0; round < 2; round++ {
		for k := len(entries) - 1; k >= 0; k-- {
			check(entries[k], fmt.Sprintf("re-use round %d", round))
		}
	}
	var ks []string
	for k := range classes {
		ks = append(ks, k)
	}
	sort.Strings(ks)
	for _, k := range ks {
		fmt.Printf("BOUNDED-CLASS %s example: %s\n", k, classes[k])
	}
	fmt.Printf("BOUNDED-OK run-time created types (outside the linker's type window): %d types (struct, slice, pointer, map, array over 6 same-layout structs) encoded and decoded in interleaved orders, %d uses, %d disagreement classes\n", len(entries), n, len(ks))
}

func fillElem(v reflect.Value, i int) {
	switch v.Kind() {
	case reflect.Struct:
		v.Field(0).SetInt(int64(1000 + i))
		v.Field(1).SetString(fmt.Sprintf("s%d", i))
		v.Field(2).Set(reflect.ValueOf([]int{i, i + 1}))
	case reflect.Ptr:
		v.Set(reflect.New(v.Type().Elem()))
		fillElem(v.Elem(), i)
	}
}
