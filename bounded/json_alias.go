package json

// Bounded stand-in (labelled bounded, never counted as proved) for the parts of C12
// outside the entry-point contracts: what decoded values and returned slices alias
// deeper inside the library (RawMessage, []byte, strings with and without escapes,
// UnmarshalJSON payloads, marshaler output held by the caller, pooled buffers).
// Each scenario decodes or encodes, then overwrites the caller's bytes or runs
// further library calls, and checks that earlier results did not change and that
// the caller's bytes were never written.

import (
	"bytes"
	"context"
	"fmt"
	"sort"
	"strings"
	"testing"
)

type govcKeep struct {
	b []byte
}

func (k *govcKeep) UnmarshalJSON(b []byte) error {
	k.b = b // keeps the slice it was handed
	return nil
}

type govcRawHolder struct {
	R RawMessage        `json:"r"`
	S string            `json:"s"`
	B []byte            `json:"b"`
	K govcKeep          `json:"k"`
	I interface{}       `json:"i"`
	M map[string]string `json:"m"`
}

type govcAppender struct{ s string }

func (a *govcAppender) UnmarshalText(b []byte) error {
	b = append(b, "XXXXXXXXXXXXXXXX"...)
	a.s = string(b)
	return nil
}

type govcWindow struct{ raw []byte }

func (w govcWindow) MarshalJSON() ([]byte, error) { return w.raw, nil }

func TestGovcBounded(t *testing.T) {
	classes := map[string]string{}
	record := func(class, what string) {
		if _, ok := classes[class]; !ok {
			classes[class] = what
		}
	}
	n := 0
	docs := []string{
		`{"r":{"x":[1,2,3]},"s":"plain","b":"YWJj","k":{"q":1},"i":["a","b\nc"],"m":{"k1":"v1","k\t2":"v\\2"}}`,
		`{"r":"str\"ing","s":"escé\n","b":"","k":"kk","i":{"z":"y"},"m":{}}`,
		`{"r":12345,"s":"","b":null,"k":[1],"i":"top","m":{"a":"b"}}`,
	}
	for _, pad := range []int{0, 1, 64} {
		for di, d := range docs {
			// the caller's buffer has spare capacity and a neighbour after the document
			backing := make([]byte, len(d)+pad+8)
			for i := range backing {
				backing[i] = '#'
			}
			copy(backing, d)
			data := backing[:len(d)]
			orig := append([]byte{}, backing...)
			for mode := 0; mode < 4; mode++ {
				n++
				var v govcRawHolder
				var err error
				name := []string{"Unmarshal", "UnmarshalNoEscape", "Decoder", "UnmarshalContext"}[mode]
				switch mode {
				case 0:
					err = Unmarshal(data, &v)
				case 1:
					err = UnmarshalNoEscape(data, &v)
				case 3:
					err = UnmarshalContext(context.Background(), data, &v)
				default:
					err = NewDecoder(bytes.NewReader(data)).Decode(&v)
				}
				what := fmt.Sprintf("%s doc=%d pad=%d", name, di, pad)
				if err != nil {
					record("decode-error-"+name, what+": "+err.Error())
					continue
				}
				if !bytes.Equal(backing, orig) {
					record("input-modified-by-"+name, what)
					copy(backing, orig)
				}
				snap := fmt.Sprintf("%q|%q|%q|%q|%v|%v", v.R, v.S, v.B, v.K.b, v.I, v.M)
				// the caller reuses its buffer
				for i := range backing {
					backing[i] = 'X'
				}
				// and the library is used again in between
				var other govcRawHolder
				_ = Unmarshal([]byte(strings.Repeat(`{"r":"ZZZZZZZZZZZZZZZZ","s":"ZZZZZZZZ","k":"ZZZZ"}`, 1)), &other)
				_, _ = Marshal(other)
				if now := fmt.Sprintf("%q|%q|%q|%q|%v|%v", v.R, v.S, v.B, v.K.b, v.I, v.M); now != snap {
					record("decoded-value-aliases-input-or-pool-"+name, fmt.Sprintf("%s: %s -> %s", what, snap, now))
				}
				copy(backing, orig)
			}
		}
	}
	// Marshal results are exclusively the caller's; marshaler output stays the marshaler's
	for _, indent := range []bool{false, true} {
		for round := 0; round < 4; round++ {
			n++
			big := make([]byte, 64)
			for i := range big {
				big[i] = '#'
			}
			copy(big, `{"a":1}`)
			w := govcWindow{raw: big[:7]} // a window with spare capacity: the neighbour must survive
			val := map[string]interface{}{"w": w, "s": strings.Repeat("s", 10+round), "r": RawMessage(big[:7])}
			var out []byte
			var err error
			if indent {
				out, err = MarshalIndent(val, "", " ")
			} else {
				out, err = Marshal(val)
			}
			if err != nil {
				record("marshal-error", err.Error())
				continue
			}
			if big[7] != '#' || !bytes.Equal(big[:7], []byte(`{"a":1}`)) {
				record(fmt.Sprintf("marshaler-output-written-indent=%v", indent), fmt.Sprintf("%q", big[:12]))
			}
			keep := append([]byte{}, out...)
			// later library calls of both kinds
			_, _ = Marshal(map[string]interface{}{"x": strings.Repeat("y", 200), "w": w})
			_, _ = MarshalIndent(map[string]interface{}{"x": strings.Repeat("z", 300), "w": w}, "", "  ")
			var sink interface{}
			_ = Unmarshal([]byte(`{"q":"`+strings.Repeat("u", 400)+`"}`), &sink)
			if !bytes.Equal(out, keep) {
				record(fmt.Sprintf("marshal-result-changed-by-later-calls-indent=%v", indent), fmt.Sprintf("%q -> %q", keep, out))
			}
			if big[7] != '#' || !bytes.Equal(big[:7], []byte(`{"a":1}`)) {
				record(fmt.Sprintf("marshaler-output-written-later-indent=%v", indent), fmt.Sprintf("%q", big[:12]))
			}
			// changing the result must not affect later results
			for i := range out {
				out[i] = '!'
			}
			again, _ := Marshal(val)
			if bytes.Contains(again, []byte("!!")) {
				record("marshal-result-shared-with-library", fmt.Sprintf("%q", again))
			}
		}
	}
	// values decoded earlier from a Decoder are not altered by later Decode calls on the same stream
	{
		n++
		stream := strings.Repeat(`{"r":{"n":1},"s":"first\n","b":"YWJj","k":{"kk":1},"i":["x"],"m":{"a":"b"}} `, 1) +
			strings.Repeat(`{"r":"`+strings.Repeat("Q", 700)+`","s":"`+strings.Repeat("W", 700)+`","k":"`+strings.Repeat("E", 300)+`"} `, 3)
		dec := NewDecoder(strings.NewReader(stream))
		var first govcRawHolder
		if err := dec.Decode(&first); err != nil {
			record("decoder-error", err.Error())
		} else {
			snap := fmt.Sprintf("%q|%q|%q|%q|%v|%v", first.R, first.S, first.B, first.K.b, first.I, first.M)
			for dec.More() {
				var next govcRawHolder
				if err := dec.Decode(&next); err != nil {
					break
				}
			}
			if now := fmt.Sprintf("%q|%q|%q|%q|%v|%v", first.R, first.S, first.B, first.K.b, first.I, first.M); now != snap {
				record("decoder-earlier-value-altered-by-later-decode", fmt.Sprintf("%s -> %s", snap, now))
			}
		}
	}
	// Path.Extract results belong to the caller: editing them changes neither the input nor later results
	for _, pc := range []struct{ path, doc string }{{"$", `{"a":1}`}, {"$.a", `{"a":true}`}, {"$.a", `{"a":false}`}, {"$.a", `{"a":null}`}, {"$.a.b", `{"a":true}`}, {"$.a", `{"a":"str"}`}, {"$.a", `{"a":[1,2]}`}, {"$[0]", `[null]`}, {"$[*]", `[true,{"k":"v"},3]`}} {
		n++
		path, err := CreatePath(pc.path)
		if err != nil {
			continue
		}
		in := []byte(pc.doc)
		first, err := path.Extract(in)
		if err != nil {
			continue
		}
		keep := fmt.Sprintf("%q", first)
		for _, r := range first {
			for i := range r {
				r[i] = 'X'
			}
		}
		if string(in) != pc.doc {
			record("path-result-aliases-input", fmt.Sprintf("path %s doc %s: input is now %q", pc.path, pc.doc, in))
		}
		again, _ := path.Extract([]byte(pc.doc))
		if now := fmt.Sprintf("%q", again); now != keep {
			record("path-result-aliases-library-memory", fmt.Sprintf("path %s doc %s: first %s, after editing the first result a new extraction gives %s", pc.path, pc.doc, keep, now))
		}
	}
	// the text handed to UnmarshalText ends where the text ends: appending to it does not damage the rest of the document
	{
		n++
		var st struct {
			A govcAppender `json:"A"`
			B string       `json:"B"`
			C govcAppender `json:"C"`
			D int          `json:"D"`
		}
		doc := `{"A":"x","B":"hello","C":"y\n","D":7}`
		for mode := 0; mode < 2; mode++ {
			st.B, st.D = "", 0
			var err error
			if mode == 0 {
				err = Unmarshal([]byte(doc), &st)
			} else {
				err = NewDecoder(strings.NewReader(doc)).Decode(&st)
			}
			if err != nil || st.B != "hello" || st.D != 7 {
				record(fmt.Sprintf("unmarshaltext-append-damages-document-mode%d", mode), fmt.Sprintf("%s: err=%v B=%q D=%d", doc, err, st.B, st.D))
			}
		}
	}
	var ks []string
	for k := range classes {
		ks = append(ks, k)
	}
	sort.Strings(ks)
	for _, k := range ks {
		fmt.Printf("BOUNDED-CLASS %s example: %s\n", k, classes[k])
	}
	fmt.Printf("BOUNDED-OK aliasing scenarios: %d decode/encode scenarios (RawMessage, string, []byte, UnmarshalJSON payload, interface, map; caller buffer with spare capacity; marshaler output window; Decoder history), %d disagreement classes\n", n, len(ks))
}
