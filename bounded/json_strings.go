package json

// Bounded stand-in (labelled bounded, never counted as proved) for the part of C17
// that the contracts do not state: WHICH bytes are produced. The contracts prove that
// the emitters never copy a byte that needs escaping, that only well-formed UTF-8 is
// reported valid (and all of it), and that the unescaper is memory-safe on validated
// bodies; they do not say that the escape written for a byte is the right one or that
// an escape decodes to the right character. Here every string of up to three units
// over an alphabet of boundary characters is encoded under the four escaping modes and
// every JSON string literal of up to three units over an alphabet of escapes is
// decoded in buffer and stream mode, and both are compared with encoding/json.

import (
	"bytes"
	stdjson "encoding/json"
	"fmt"
	"os"
	"sort"
	"strings"
	"testing"
)

func TestGovcBounded(t *testing.T) {
	thorough := os.Getenv("GOVC_TIER") == "thorough"
	classes := map[string]string{}
	record := func(class, what string) {
		if _, ok := classes[class]; !ok {
			classes[class] = what
		}
	}
	n := 0
	// ---- encoder: Go strings -> JSON
	cp := func(r int) string { return string(rune(r)) }
	encUnits := []string{"a", "\"", "\\", "/", "<", ">", "&", "\x00", "\x01", "\x1f", " ", "\x7f", "\n", "\t",
		cp(0xe9), cp(0x7ff), cp(0x800), cp(0xd7bf), cp(0xd7c0), cp(0xd7ff), cp(0xe000), cp(0xfffd), cp(0x2027), cp(0x2028), cp(0x2029), cp(0x202a), cp(0xffff),
		cp(0x10000), cp(0x1f600), cp(0x10ffff),
		"\xff", "\xc3", "\xe2\x80", "\xed\xa0\x80", "\xf4\x90\x80\x80", "\x80", "\xc0\x80", "\xe0\x9f\xbf", "\xf0\x8f\xbf\xbf"}
	maxEnc := 2
	if thorough {
		maxEnc = 3
	}
	var encStrings []string
	var gen func(prefix string, depth int)
	gen = func(prefix string, depth int) {
		encStrings = append(encStrings, prefix)
		if depth == maxEnc {
			return
		}
		for _, u := range encUnits {
			gen(prefix+u, depth+1)
		}
	}
	gen("", 0)
	// longer strings so that the 8-byte word path, its tail and the slow path all run
	for _, u := range encUnits {
		for pad := 7; pad <= 17; pad++ {
			encStrings = append(encStrings, strings.Repeat("x", pad)+u, strings.Repeat("x", pad)+u+"yz", u+strings.Repeat("x", pad))
		}
	}
	for _, s := range encStrings {
		n++
		// default: HTML escaping and normalisation on = encoding/json.Marshal
		want, _ := stdjson.Marshal(s)
		if got, err := Marshal(s); err != nil || !bytes.Equal(got, want) {
			record("encode-default-differs", fmt.Sprintf("%q: got %q (%v) want %q", s, got, err, want))
		}
		// HTML escaping off = encoding/json Encoder with SetEscapeHTML(false)
		var wb bytes.Buffer
		we := stdjson.NewEncoder(&wb)
		we.SetEscapeHTML(false)
		_ = we.Encode(s)
		wantNoHTML := bytes.TrimSuffix(wb.Bytes(), []byte("\n"))
		if got, err := MarshalWithOption(s, DisableHTMLEscape()); err != nil || !bytes.Equal(got, wantNoHTML) {
			record("encode-nohtml-differs", fmt.Sprintf("%q: got %q (%v) want %q", s, got, err, wantNoHTML))
		}
		// round trip of valid UTF-8 strings through Marshal, MarshalIndent and Encoder/Decoder (value, field, map key, element)
		if strings.ToValidUTF8(s, "\x00") == s {
			type holder struct {
				S string            `json:"s"`
				M map[string]string `json:"m"`
				L []string          `json:"l"`
			}
			h := holder{S: s, M: map[string]string{s: s}, L: []string{s, s}}
			for mode := 0; mode < 3; mode++ {
				var text []byte
				var err error
				var back holder
				switch mode {
				case 0:
					if text, err = Marshal(h); err == nil {
						err = Unmarshal(text, &back)
					}
				case 1:
					if text, err = MarshalIndent(h, "", "\t"); err == nil {
						err = Unmarshal(text, &back)
					}
				default:
					var buf bytes.Buffer
					if err = NewEncoder(&buf).Encode(h); err == nil {
						text = buf.Bytes()
						err = NewDecoder(&buf).Decode(&back)
					}
				}
				if err != nil || back.S != s || len(back.M) != 1 || back.M[s] != s || len(back.L) != 2 || back.L[0] != s || back.L[1] != s {
					record(fmt.Sprintf("round-trip-of-valid-string-fails-mode%d", mode), fmt.Sprintf("%q: text %q decodes to %+v (%v)", s, text, back, err))
				}
			}
		}
		// normalisation off: no oracle for the bytes; the text must decode back to the same string when it is valid UTF-8
		for oi, opt := range [][]EncodeOptionFunc{{DisableNormalizeUTF8()}, {DisableNormalizeUTF8(), DisableHTMLEscape()}} {
			got, err := MarshalWithOption(s, opt...)
			if err != nil {
				record("encode-nonormalize-error", fmt.Sprintf("%q: %v", s, err))
				continue
			}
			// with HTML escaping on there is no raw <, >, & and no raw U+2028/U+2029, normalisation or not
			if oi == 0 && (bytes.ContainsAny(got, "<>&") || bytes.Contains(got, []byte("\xe2\x80\xa8")) || bytes.Contains(got, []byte("\xe2\x80\xa9"))) {
				if bytes.ContainsAny(got, "<>&") {
					record("encode-html-nonormalize-raw-html-character", fmt.Sprintf("%q: %q", s, got))
				} else {
					record("encode-html-nonormalize-raw-line-separator", fmt.Sprintf("%q: %q", s, got))
				}
			}
			if stdjson.Valid(got) {
				var back string
				if e := stdjson.Unmarshal(got, &back); e == nil && back != s && strings.ToValidUTF8(s, "�") == s {
					record("encode-nonormalize-does-not-decode-back", fmt.Sprintf("%q: text %q decodes to %q", s, got, back))
				}
			} else if strings.ToValidUTF8(s, "�") == s {
				record("encode-nonormalize-invalid-json", fmt.Sprintf("%q: %q", s, got))
			}
		}
	}
	// ---- decoder: JSON string literals -> Go strings
	bs := string(rune(92))
	decUnits := []string{"a", " ", bs + "n", bs + "t", bs + "\"", bs + bs, bs + "/", bs + "b", bs + "f", bs + "r",
		bs + "u0041", bs + "u00e9", bs + "u00E9", bs + "u0000", bs + "u001f", bs + "u2028", bs + "uffff", bs + "uFFFF", bs + "ud7ff", bs + "ue000",
		bs + "ud800" + bs + "udc00", bs + "ud800" + bs + "udfff", bs + "udbff" + bs + "udc00", bs + "udbff" + bs + "udfff", bs + "ud83d" + bs + "ude00", bs + "uD83D" + bs + "uDE00",
		bs + "ud800", bs + "udbff", bs + "udc00", bs + "udfff", bs + "ud800" + bs + "u0041", bs + "ud800" + bs + "ud800", bs + "udc00" + bs + "ud800",
		cp(0xe9), cp(0xd7ff), cp(0x1f600), "<", "/"}
	maxDec := 2
	if thorough {
		maxDec = 3
	}
	var lits []string
	var gen2 func(prefix string, depth int)
	gen2 = func(prefix string, depth int) {
		lits = append(lits, prefix)
		if depth == maxDec {
			return
		}
		for _, u := range decUnits {
			gen2(prefix+u, depth+1)
		}
	}
	gen2("", 0)
	for _, body := range lits {
		n++
		doc := []byte(`"` + body + `"`)
		var want string
		werr := stdjson.Unmarshal(doc, &want)
		for mode := 0; mode < 3; mode++ {
			var got string
			var err error
			name := []string{"buffer", "stream", "interface"}[mode]
			switch mode {
			case 0:
				err = Unmarshal(doc, &got)
			case 1:
				err = NewDecoder(bytes.NewReader(doc)).Decode(&got)
			default:
				var v interface{}
				err = Unmarshal(doc, &v)
				got, _ = v.(string)
			}
			switch {
			case (err == nil) != (werr == nil):
				record("decode-"+name+"-verdict-differs", fmt.Sprintf("%s: err=%v, encoding/json err=%v", doc, err, werr))
			case err == nil && got != want:
				record("decode-"+name+"-value-differs", fmt.Sprintf("%s: got %q want %q", doc, got, want))
			}
		}
		// as an object key of a map and of a struct field named like the decoded key (when it is a plain name)
		kdoc := []byte(`{"` + body + `":1}`)
		var wm, gm map[string]int
		if stdjson.Unmarshal(kdoc, &wm) == nil {
			if err := Unmarshal(kdoc, &gm); err != nil || fmt.Sprint(gm) != fmt.Sprint(wm) {
				record("decode-map-key-differs", fmt.Sprintf("%s: got %v (%v) want %v", kdoc, gm, err, wm))
			}
		}
	}
	var ks []string
	for k := range classes {
		ks = append(ks, k)
	}
	sort.Strings(ks)
	for _, k := range ks {
		fmt.Printf("BOUNDED-CLASS %s example: %s\n", k, classes[k])
	}
	fmt.Printf("BOUNDED-OK string escaping and unescaping against encoding/json: %d strings encoded under 4 modes and, when valid UTF-8, round-tripped as value, field, map key and element through Marshal, MarshalIndent and Encoder/Decoder (units: boundary characters, ill-formed UTF-8; up to %d units plus padded variants), %d literals decoded (escape units incl. surrogate boundaries; up to %d units) in buffer, stream, interface and map-key position: %d cases, %d disagreement classes\n",
		len(encStrings), maxEnc, len(lits), maxDec, n, len(ks))
}
