package json

// Bounded stand-in (labelled bounded, never counted as proved) for the part of C05
// that the token-level contracts do not reach: the container grammar, members the
// destination ignores, and the entry points that run the stream decoder (Valid,
// Decoder). Every byte string up to a length bound over a structural alphabet is
// given to Valid, Unmarshal (into interface{}, into a struct that ignores every
// member, into []int) and Decoder.Decode + "nothing but white space follows", and
// the verdict is compared with encoding/json. Disagreements are grouped into classes
// named after the entry point and the direction.

import (
	"bytes"
	stdjson "encoding/json"
	"fmt"
	"io"
	"os"
	"sort"
	"testing"
)

type govcIgnoreAll struct {
	Zq int `json:"zq"`
}

func TestGovcBounded(t *testing.T) {
	alphabet := []byte(`{}[]":,1a \`)
	maxLen := 6
	if os.Getenv("GOVC_TIER") == "thorough" {
		maxLen = 7
	}
	classes := map[string]string{}
	record := func(class string, doc []byte) {
		if _, ok := classes[class]; !ok {
			classes[class] = string(doc)
		}
	}
	n := 0
	buf := make([]byte, 0, maxLen)
	var rec func()
	check := func(doc []byte) {
		n++
		want := stdjson.Valid(doc)
		// decoding into interface{} can also fail for a valid text (a number beyond float64): the oracle for
		// the decoding entry points is encoding/json's verdict on the same decode
		var ov interface{}
		wantDec := stdjson.Unmarshal(doc, &ov) == nil
		dir := func(got bool) string {
			if got {
				// root-cause discriminator: the stream decoder uses NUL as the end-of-window sentinel
				if bytes.IndexByte(doc, 0) >= 0 {
					return "accepts-invalid-nul-byte"
				}
				// root-cause discriminator: a Decoder skips one leading ',' or ':' by design (Token-driven use)
				if t := bytes.TrimLeft(doc, " "); len(t) > 0 && (t[0] == ',' || t[0] == ':') {
					return "accepts-invalid-leading-separator"
				}
				return "accepts-invalid"
			}
			return "rejects-valid"
		}
		if got := Valid(doc); got != want {
			record("Valid-"+dir(got), doc)
		}
		var v1 interface{}
		if got := Unmarshal(doc, &v1) == nil; got != wantDec {
			record("Unmarshal-interface-"+dir(got), doc)
		}
		// a destination that ignores every member: the verdict must still be the grammar's
		// (only meaningful for objects: other valid texts are type errors for a struct)
		if len(bytes.TrimLeft(doc, " ")) > 0 && bytes.TrimLeft(doc, " ")[0] == '{' {
			var s1 govcIgnoreAll
			var s2 govcIgnoreAll
			got := Unmarshal(doc, &s1) == nil
			wantS := stdjson.Unmarshal(doc, &s2) == nil
			if got != wantS {
				record("Unmarshal-struct-ignoring-members-"+dir(got), doc)
			}
			var s3 govcIgnoreAll
			sdec := NewDecoder(bytes.NewReader(doc))
			gotS := sdec.Decode(&s3) == nil
			if gotS {
				var extra interface{}
				if sdec.Decode(&extra) != io.EOF {
					gotS = false
				}
			}
			if gotS != wantS {
				record("Decoder-struct-ignoring-members-"+dir(gotS), doc)
			}
		}
		// stream: one value, then nothing but white space up to EOF
		dec := NewDecoder(bytes.NewReader(doc))
		var v2 interface{}
		err := dec.Decode(&v2)
		got := err == nil
		if got {
			var extra interface{}
			if e2 := dec.Decode(&extra); e2 != io.EOF {
				got = false
			}
		}
		if got != wantDec {
			record("Decoder-single-document-"+dir(got), doc)
		}
	}
	rec = func() {
		if len(buf) > 0 {
			check(buf)
		}
		if len(buf) == maxLen {
			return
		}
		for _, c := range alphabet {
			buf = append(buf, c)
			rec()
			buf = buf[:len(buf)-1]
		}
	}
	rec()
	// members the destination ignores: malformed containers and literals inside them (too long for the enumeration)
	for _, inner := range []string{`[nu,l]`, `[1 1]`, `{"a" 1}`, `[1,]`, `{,}`, `[}`, `{"a":1,}`, `[tru]`, `{"a"}`, `[1:2]`, `{"a":[}]}`, `["a":1]`, `[01]`, `"\q"`, `[,1]`, `{"a":1 "b":2}`, `nul`, `[[1]`, `{"a":{"b":[1,2}}`} {
		check([]byte(`{"unknown":` + inner + `}`))
		check([]byte(`{"unknown":` + inner + `,"zq":1}`))
		check([]byte(`{"zq":1,"unknown":` + inner + `}`))
	}
	// outside the alphabet: numbers beyond float64, NUL bytes, control characters in strings and escapes
	bs := string(rune(92))
	for _, d := range []string{"1e400", "[1E999]", "-1e-400", "[-1e400,1]", `{"a":1e999}`, "1\x00", "1\x00x", "[1]\x00", "\x00", "[\x001]", "\"\x1f\"", "\"\x00\"", "[\"a\x01\"]", "{\"k\x02\":1}", "{\"k\":{\"a\x03\":1}}",
		"[\"" + bs + "u00\x1f1\"]", "\"" + bs + "u00zz\"", "\"" + bs + "uD800" + bs + "u00zz\"", "{\"" + bs + "u00g1\":1}", "\"\x7f\"", "\"\t\"", "[\"\n\"]",
		`{null:1}`, `{"a":1,null:2}`, `{ null : 1 }`, `[{null:1}]`, `{1:2}`, `{true:1}`, `{[]:1}`, `{{}:1}`, `{"zq":1,null:2}`, "\"" + bs + "ud800" + bs + "udc0g\"", "\"" + bs + "ud800" + bs + "udcZZ\"", "{\"" + bs + "ud800" + bs + "udc0g\":1}",
		"[1,]", `{"unknown":[1,2,]}`, `{"unknown":{"a":[null,]}}`, `{"zq":1,"u":[ "x" , ]}`} {
		check([]byte(d))
	}
	var ks []string
	for k := range classes {
		ks = append(ks, k)
	}
	sort.Strings(ks)
	for _, k := range ks {
		fmt.Printf("BOUNDED-CLASS %s example: %q\n", k, classes[k])
	}
	fmt.Printf("BOUNDED-OK acceptance against encoding/json: %d byte strings of length 1..%d over %q through Valid, Unmarshal (interface{}, struct ignoring members) and Decoder: %d disagreement classes\n", n, maxLen, alphabet, len(ks))
}
