#!/bin/bash
# usage: seedwt.sh <seed-name> <property> [patch-file]
# Framework part of a seed test WITHOUT touching /repo: a scratch worktree of /repo's HEAD gets the
# patch, the property's quick check runs against it (GOVC_REPO) with its evidence and replay files
# redirected (GOVC_OUT), the outcome is recorded under "framework_recheck" in the seed's meta.json,
# and the worktree and its output are removed. Several of these can run at the same time.
set -u
name=$1; prop=$2; out=/verif/seeded/$name; patch=${3:-$out/patch.diff}
wt=/tmp/seedwt-$name-$$; od=/tmp/seedwt-$name-$$-out
git -C /repo worktree add -q --detach $wt HEAD || exit 2
cleanup() { git -C /repo worktree remove --force $wt 2>/dev/null; rm -rf $od; }
trap cleanup EXIT
git -C $wt apply $patch || { echo "$name: patch does not apply"; exit 2; }
mkdir -p $od $out
cd /verif && GOVC_REPO=$wt GOVC_OUT=$od ./bin/govc check $prop --tier quick > $out/recheck.log 2>&1; rc=$?
sed -i "s#$od#/verif#g; s#$wt#/repo#g" $out/recheck.log
grep "^VIOLATION" $out/recheck.log | head -4; tail -1 $out/recheck.log; echo "$name check exit=$rc"
[ -f $out/meta.json ] && python3 - <<PY
import json
p="$out/meta.json"; m=json.load(open(p))
m["framework_recheck"]={"check":"./bin/govc check $prop --tier quick","exit":$rc,"violations":[l.strip() for l in open("$out/recheck.log") if l.startswith("VIOLATION")][:6]}
json.dump(m,open(p,"w"),indent=1)
PY
exit 0
