package main

import (
	"fmt"
	"go/types"
	"os"
	"strings"

	"golang.org/x/tools/go/packages"
	"golang.org/x/tools/go/ssa"
	"golang.org/x/tools/go/ssa/ssautil"
)

// Program is the loaded, type-checked and SSA-built working tree of /repo.
type Program struct {
	Pkgs  []*packages.Package
	SSA   *ssa.Program
	ByPkg map[string]*ssa.Package // keyed by short name ("decoder") and full path
	Funcs map[string]*ssa.Function
	Sizes types.Sizes
}

var repoDir = "/repo"

var loadPatterns = []string{
	".",
	"./internal/decoder",
	"./internal/encoder",
	"./internal/encoder/vm",
	"./internal/encoder/vm_indent",
	"./internal/encoder/vm_color",
	"./internal/encoder/vm_color_indent",
	"./internal/runtime",
	"./internal/errors",
}

func loadProgram(tags string) (*Program, error) {
	if d := os.Getenv("GOVC_REPO"); d != "" {
		repoDir = d
	}
	cfg := &packages.Config{
		Mode: packages.NeedName | packages.NeedFiles | packages.NeedCompiledGoFiles | packages.NeedImports |
			packages.NeedDeps | packages.NeedTypes | packages.NeedTypesSizes | packages.NeedSyntax | packages.NeedTypesInfo,
		Dir:        repoDir,
		BuildFlags: []string{"-tags=" + tags},
		Env: append(os.Environ(), "GOFLAGS=-mod=mod", "GOPROXY=off", "GOSUMDB=off", "GOTOOLCHAIN=local",
			"GOOS=linux", "GOARCH=amd64", "CGO_ENABLED=0"),
	}
	pkgs, err := packages.Load(cfg, loadPatterns...)
	if err != nil {
		return nil, err
	}
	nerr := 0
	for _, p := range pkgs {
		for _, e := range p.Errors {
			fmt.Fprintf(os.Stderr, "load error: %v\n", e)
			nerr++
		}
	}
	if nerr > 0 {
		return nil, fmt.Errorf("%d load errors", nerr)
	}
	prog, spkgs := ssautil.AllPackages(pkgs, ssa.InstantiateGenerics|ssa.GlobalDebug)
	prog.Build()
	P := &Program{Pkgs: pkgs, SSA: prog, ByPkg: map[string]*ssa.Package{}, Funcs: map[string]*ssa.Function{}}
	P.Sizes = types.SizesFor("gc", "amd64")
	for i, sp := range spkgs {
		if sp == nil {
			continue
		}
		P.ByPkg[pkgs[i].PkgPath] = sp
		short := pkgs[i].Name
		if pkgs[i].PkgPath == "github.com/goccy/go-json" {
			short = "json"
		}
		if strings.Contains(pkgs[i].PkgPath, "/vm") {
			short = pkgs[i].PkgPath[strings.LastIndex(pkgs[i].PkgPath, "/")+1:]
		}
		P.ByPkg[short] = sp
		for fn := range ssautil.AllFunctions(prog) {
			_ = fn
			break
		}
	}
	// index functions by "pkgshort.Name" and "pkgshort.(*T).Name"
	for fn := range ssautil.AllFunctions(prog) {
		if fn.Pkg == nil {
			continue
		}
		if !strings.HasPrefix(fn.Pkg.Pkg.Path(), "github.com/goccy/go-json") {
			continue
		}
		P.Funcs[funcKey(fn)] = fn
	}
	return P, nil
}

func pkgShort(p *types.Package) string {
	if p == nil {
		return ""
	}
	path := p.Path()
	if path == "github.com/goccy/go-json" {
		return "json"
	}
	return path[strings.LastIndex(path, "/")+1:]
}

// funcKey gives "decoder.(*intDecoder).parseInt", "encoder.AppendInt", "decoder.initDecoder$1".
func funcKey(fn *ssa.Function) string {
	name := fn.Name()
	if recv := fn.Signature.Recv(); recv != nil {
		t := recv.Type()
		if pt, ok := t.(*types.Pointer); ok {
			if n, ok := pt.Elem().(*types.Named); ok {
				name = "(*" + n.Obj().Name() + ")." + fn.Name()
			}
		} else if n, ok := t.(*types.Named); ok {
			name = "(" + n.Obj().Name() + ")." + fn.Name()
		}
	}
	if fn.Pkg == nil {
		return name
	}
	return pkgShort(fn.Pkg.Pkg) + "." + name
}
