package main

import (
	"fmt"
	"sort"
	"go/constant"
	"go/token"
	"go/types"
	"math/big"
	"strings"

	"golang.org/x/tools/go/ssa"
)

// Package-level variables. A variable that no function other than its
// package's init stores to (and whose address does not escape outside init) is
// bound to the values init stores into it; constant integer/bool arrays become
// SMT table functions extracted from the current source on every run.

type globalInfo struct {
	g        *ssa.Global
	readOnly bool
	table    []*big.Int       // element values for integer/bool arrays
	scalar   *big.Int         // constant scalar initial value
	ptrElems map[int64]*ssa.Global // array of pointers to globals
	ambiguous bool
	tableName string
	elemBool bool
	sliceLit []*big.Int // []byte{...} literal: element values
	isSliceLit bool
	strLit   *string // string variable initialised with a constant
	fnVal    *ssa.Function // function variable initialised with a function
}

type globalIndex struct {
	info map[*ssa.Global]*globalInfo
}

func buildGlobalIndex(P *Program) *globalIndex {
	gi := &globalIndex{info: map[*ssa.Global]*globalInfo{}}
	mutated := map[*ssa.Global]bool{}
	var scanUse func(g *ssa.Global, v ssa.Value, seen map[ssa.Value]bool)
	scanUse = func(g *ssa.Global, v ssa.Value, seen map[ssa.Value]bool) {
		if seen[v] {
			return
		}
		seen[v] = true
		refs := v.Referrers()
		if refs == nil {
			return
		}
		for _, r := range *refs {
			switch u := r.(type) {
			case *ssa.DebugRef:
			case *ssa.UnOp:
				if u.Op != token.MUL {
					mutated[g] = true
				}
			case *ssa.Store:
				mutated[g] = true
			case *ssa.FieldAddr:
				scanUse(g, u, seen)
			case *ssa.IndexAddr:
				if u.X != v {
					mutated[g] = true
				}
				scanUse(g, u, seen)
			default:
				mutated[g] = true
			}
		}
	}
	for _, fn := range P.Funcs {
		isInit := isInitFunc(fn)
		for _, b := range fn.Blocks {
			for _, in := range b.Instrs {
				for _, op := range in.Operands(nil) {
					g, ok := (*op).(*ssa.Global)
					if !ok {
						continue
					}
					if isInit {
						continue
					}
					switch u := in.(type) {
					case *ssa.DebugRef:
					case *ssa.UnOp:
						if u.Op != token.MUL {
							mutated[g] = true
						}
					case *ssa.Store:
						mutated[g] = true // either stored to or its address stored
					case *ssa.FieldAddr:
						scanUse(g, u, map[ssa.Value]bool{})
					case *ssa.IndexAddr:
						if u.X != g {
							mutated[g] = true
						} else {
							scanUse(g, u, map[ssa.Value]bool{})
						}
					default:
						mutated[g] = true
					}
				}
			}
		}
	}
	// collect init stores
	donePkg := map[*ssa.Package]bool{}
	for _, sp := range P.ByPkg {
		if donePkg[sp] {
			continue
		}
		donePkg[sp] = true
		init := sp.Func("init")
		if init == nil {
			continue
		}
		for _, m := range sp.Members {
			g, ok := m.(*ssa.Global)
			if !ok {
				continue
			}
			if _, done := gi.info[g]; done {
				continue
			}
			gi.info[g] = &globalInfo{g: g, readOnly: !mutated[g]}
		}
		var initFns []*ssa.Function
		initFns = append(initFns, init)
		for name, m := range sp.Members {
			if fn, ok := m.(*ssa.Function); ok && strings.HasPrefix(name, "init#") {
				initFns = append(initFns, fn)
			}
		}
		sort.Slice(initFns, func(i, j int) bool { return initFns[i].Name() < initFns[j].Name() })
		for _, init := range initFns {
		for _, b := range init.Blocks {
			for _, in := range b.Instrs {
				st, ok := in.(*ssa.Store)
				if !ok {
					continue
				}
				switch a := st.Addr.(type) {
				case *ssa.Global:
					info := gi.info[a]
					if info == nil {
						continue
					}
					if c, ok := st.Val.(*ssa.Const); ok && c.Value != nil && (c.Value.Kind() == constant.Int || c.Value.Kind() == constant.Bool) && isStraightLine(init, b) {
						if info.scalar != nil {
							info.ambiguous = true
						}
						info.scalar = constBig(c)
					} else if c, ok := st.Val.(*ssa.Const); ok && c.Value != nil && c.Value.Kind() == constant.String && isStraightLine(init, b) && info.strLit == nil {
						sv := constant.StringVal(c.Value)
						info.strLit = &sv
					} else if fv, ok := st.Val.(*ssa.Function); ok && isStraightLine(init, b) && info.fnVal == nil {
						info.fnVal = fv
					} else if lit, ok := sliceLiteral(st.Val); ok && isStraightLine(init, b) && !info.isSliceLit {
						info.sliceLit = lit
						info.isSliceLit = true
					} else {
						info.ambiguous = true
					}
				case *ssa.IndexAddr:
					g, ok := a.X.(*ssa.Global)
					if !ok {
						continue
					}
					info := gi.info[g]
					if info == nil {
						continue
					}
					ic, ok := a.Index.(*ssa.Const)
					if !ok {
						info.ambiguous = true
						continue
					}
					i := ic.Int64()
					arr, ok := g.Type().(*types.Pointer).Elem().Underlying().(*types.Array)
					if !ok {
						continue
					}
					if info.table == nil && info.ptrElems == nil {
						if _, _, isInt := intInfo(arr.Elem()); isInt || isBool(arr.Elem()) {
							info.table = make([]*big.Int, arr.Len())
							for k := range info.table {
								info.table[k] = big.NewInt(0)
							}
							info.elemBool = isBool(arr.Elem())
						} else {
							info.ptrElems = map[int64]*ssa.Global{}
						}
					}
					switch v := st.Val.(type) {
					case *ssa.Const:
						if info.table != nil && v.Value != nil {
							info.table[i] = constBig(v)
						}
					case *ssa.Global:
						if info.ptrElems != nil {
							info.ptrElems[i] = v
						}
					default:
						info.ambiguous = true
					}
					if !isStraightLine(init, b) {
						info.ambiguous = true
					}
				}
			}
		}
		}
		// arrays with no init stores at all are all-zero tables
		for _, m := range sp.Members {
			g, ok := m.(*ssa.Global)
			if !ok {
				continue
			}
			info := gi.info[g]
			if info.table == nil && info.ptrElems == nil {
				if arr, ok := g.Type().(*types.Pointer).Elem().Underlying().(*types.Array); ok {
					if _, _, isInt := intInfo(arr.Elem()); isInt || isBool(arr.Elem()) {
						info.table = make([]*big.Int, arr.Len())
						for k := range info.table {
							info.table[k] = big.NewInt(0)
						}
						info.elemBool = isBool(arr.Elem())
					}
				}
			}
		}
	}
	return gi
}

// isStraightLine: block b executes exactly once whenever the initialiser runs:
// it lies on the single-successor chain from the start block (block 1 of the
// synthetic package initialiser, after the init$guard test; block 0 otherwise).
func isStraightLine(fn *ssa.Function, b *ssa.BasicBlock) bool {
	start := fn.Blocks[0]
	if fn.Synthetic != "" && len(fn.Blocks) > 1 {
		start = fn.Blocks[1]
	}
	seen := map[*ssa.BasicBlock]bool{}
	for x := start; x != nil && !seen[x]; {
		if x == b {
			return true
		}
		seen[x] = true
		if len(x.Succs) != 1 {
			return false
		}
		x = x.Succs[0]
	}
	return false
}

// sliceLiteral recognises v = slice (new [N]byte)[:] whose elements are set by constant stores.
func sliceLiteral(v ssa.Value) ([]*big.Int, bool) {
	sl, ok := v.(*ssa.Slice)
	if !ok || sl.Low != nil || sl.High != nil || sl.Max != nil {
		return nil, false
	}
	al, ok := sl.X.(*ssa.Alloc)
	if !ok {
		return nil, false
	}
	arr, ok := al.Type().(*types.Pointer).Elem().Underlying().(*types.Array)
	if !ok || sizeOf(arr.Elem()) != 1 {
		return nil, false
	}
	out := make([]*big.Int, arr.Len())
	for i := range out {
		out[i] = big.NewInt(0)
	}
	for _, r := range *al.Referrers() {
		switch u := r.(type) {
		case *ssa.Slice, *ssa.DebugRef:
		case *ssa.IndexAddr:
			ic, ok := u.Index.(*ssa.Const)
			if !ok {
				return nil, false
			}
			for _, rr := range *u.Referrers() {
				st, ok := rr.(*ssa.Store)
				if !ok || st.Addr != u {
					if _, isDbg := rr.(*ssa.DebugRef); isDbg {
						continue
					}
					return nil, false
				}
				c, ok := st.Val.(*ssa.Const)
				if !ok {
					return nil, false
				}
				out[ic.Int64()] = constBig(c)
			}
		default:
			return nil, false
		}
	}
	return out, true
}

func isInitFunc(fn *ssa.Function) bool {
	if fn.Signature.Recv() != nil {
		return false
	}
	return (fn.Name() == "init" && fn.Synthetic != "") || strings.HasPrefix(fn.Name(), "init#")
}

func reaches(a, b *ssa.BasicBlock) bool {
	seen := map[*ssa.BasicBlock]bool{}
	var dfs func(x *ssa.BasicBlock) bool
	dfs = func(x *ssa.BasicBlock) bool {
		if x == b {
			return true
		}
		if seen[x] {
			return false
		}
		seen[x] = true
		for _, s := range x.Succs {
			if dfs(s) {
				return true
			}
		}
		return false
	}
	return dfs(a)
}

func constBig(c *ssa.Const) *big.Int {
	if c.Value == nil {
		return big.NewInt(0)
	}
	switch c.Value.Kind() {
	case constant.Bool:
		if constant.BoolVal(c.Value) {
			return big.NewInt(1)
		}
		return big.NewInt(0)
	case constant.Int:
		v, _ := new(big.Int).SetString(c.Value.ExactString(), 10)
		return v
	}
	return big.NewInt(0)
}

var theGlobals *globalIndex
var globalCells = map[*ssa.Global]*Cell{}

type globalCellInfo struct{ info *globalInfo }

var cellGlobal = map[*Cell]*globalInfo{}

func (vc *VC) globalPtr(g *ssa.Global) Value {
	c := globalCells[g]
	if c == nil {
		t := g.Type().(*types.Pointer).Elem()
		c = &Cell{ID: "G_" + pkgShort(g.Pkg.Pkg) + "." + g.Name(), Typ: t, Size: sizeOf(t)}
		globalCells[g] = c
		info := theGlobals.info[g]
		if info == nil {
			info = &globalInfo{g: g}
		}
		cellGlobal[c] = info
	}
	return VPtr{Cell: c}
}

// globalLoad resolves a read of a package-level variable.
func (vc *VC) globalLoad(st *State, p VPtr, t types.Type, idx *Term) (Value, bool) {
	info := cellGlobal[p.Cell]
	if info == nil {
		return nil, false
	}
	B := vc.B
	name := p.Cell.ID
	if over, ok := st.cells[name+"@bind"]; ok && p.Off == 0 && p.Dyn == nil {
		return over, true
	}
	if info.readOnly && !info.ambiguous && info.strLit != nil && p.Off == 0 && p.Dyn == nil && idx == nil && isString(t) {
		return vc.stringConst(*info.strLit), true
	}
	if info.readOnly && !info.ambiguous && info.isSliceLit && p.Off == 0 && p.Dyn == nil && idx == nil {
		ptr := B.Var(name+".ptr", SInt)
		n := int64(len(info.sliceLit))
		vc.fact(B.And(B.Lt(B.Int(0), ptr), B.Le(B.Add(ptr, B.Int(n)), B.Big(maxAddr))))
		M0 := vc.epochVar(0, "M")
		Mcur := vc.heapGet(st, "M")
		for i, v := range info.sliceLit {
			vc.fact(B.Eq(B.Select(M0, B.Add(ptr, B.Int(int64(i)))), B.Big(v)))
			if Mcur != M0 {
				// "never written": the contents also hold on the byte heap as it is at this load
				// (after a callee with unknown effects has run)
				vc.fact(B.Eq(B.Select(Mcur, B.Add(ptr, B.Int(int64(i)))), B.Big(v)))
			}
		}
		vc.note("assumed: the backing array of read-only slice literal %s is never written (contents stated on the entry byte heap)", strings.TrimPrefix(name, "G_"))
		sv := VSlice{ptr, B.Int(n), B.Int(n)}
		vc.regions = append(vc.regions, Region{Base: ptr, Size: B.Int(n), What: "global slice literal"})
		return sv, true
	}
	if info.readOnly && !info.ambiguous {
		if info.table != nil && idx != nil {
			if info.tableName == "" || vc.B.funcs[info.tableName] == nil {
				info.tableName = B.tableFun(strings.TrimPrefix(name, "G_"), info.table, info.elemBool)
			}
			v := B.App(info.tableName, idx)
			if !idx.IsConst() && vc.hasTableLemma(info) {
				// the lemma (proved on the real table) stands in for the 100-way definition
				on := sanitize("tblo_" + strings.TrimPrefix(name, "G_"))
				ret := SInt
				if info.elemBool {
					ret = SBool
				}
				B.DefineFun(on, []Sort{SInt}, ret, "", nil)
				v = B.App(on, idx)
				if !info.elemBool {
					if arr, ok := info.g.Type().(*types.Pointer).Elem().Underlying().(*types.Array); ok {
						vc.rangeFact(v, arr.Elem())
					}
				}
			}
			vc.useTableLemmas(info, idx, v)
			return VT{v}, true
		}
		if info.ptrElems != nil && idx != nil {
			if idx.IsConst() {
				if g2, ok := info.ptrElems[idx.ival.Int64()]; ok {
					return vc.globalPtr(g2), true
				}
			}
			vc.note("symbolic index into pointer table %s havocked", name)
			return vc.freshValue("gl", t), true
		}
		if info.scalar != nil && p.Off == 0 && p.Dyn == nil && idx == nil {
			if isBool(t) {
				return VT{B.Bool(info.scalar.Sign() != 0)}, true
			}
			if _, _, ok := intInfo(t); ok {
				return VT{B.Big(info.scalar)}, true
			}
		}
	}
	// unknown content: deterministic symbols per leaf so that all states agree;
	// a global that other functions write is re-read from a heap class instead.
	if !info.readOnly {
		key := "G:" + name
		var leaves []Leaf
		if err := flatten(t, 0, &leaves); err != nil || idx != nil || p.Dyn != nil {
			vc.note("read of mutable global %s havocked", name)
			return vc.freshValue("gl", t), true
		}
		terms := make([]*Term, len(leaves))
		for i, lf := range leaves {
			k := fmt.Sprintf("%s@%d", key, p.Off+lf.Off)
			if lf.Kind == "bool" {
				vc.sortOf[k] = SArrIB
			}
			terms[i] = B.Select(vc.heapGet(st, k), B.Int(0))
			if lf.Kind == "int" {
				vc.rangeFact(terms[i], lf.Typ)
			} else if lf.Kind == "ptr" {
				vc.fact(B.And(B.Le(B.Int(0), terms[i]), B.Lt(terms[i], B.Big(maxAddr))))
			}
		}
		pos := 0
		v := vc.assemble(t, terms, &pos)
		if s, ok := v.(VSlice); ok {
			if sl, ok := t.Underlying().(*types.Slice); ok {
				vc.sliceInv(s, sizeOf(sl.Elem()))
			}
		}
		return v, true
	}
	var leaves []Leaf
	if err := flatten(t, 0, &leaves); err != nil || idx != nil || p.Dyn != nil {
		vc.note("read of global %s with unsupported shape havocked", name)
		return vc.freshValue("gl", t), true
	}
	terms := make([]*Term, len(leaves))
	for i, lf := range leaves {
		s := SInt
		if lf.Kind == "bool" {
			s = SBool
		}
		terms[i] = B.Var(fmt.Sprintf("%s@%d", name, p.Off+lf.Off), s)
		if lf.Kind == "int" {
			vc.rangeFact(terms[i], lf.Typ)
		} else if lf.Kind == "ptr" {
			vc.fact(B.And(B.Le(B.Int(0), terms[i]), B.Lt(terms[i], B.Big(maxAddr))))
		}
	}
	pos := 0
	v := vc.assemble(t, terms, &pos)
	switch x := v.(type) {
	case VSlice:
		if sl, ok := t.Underlying().(*types.Slice); ok {
			vc.sliceInv(x, sizeOf(sl.Elem()))
		}
	case VString:
		vc.stringInv(x)
	}
	return v, true
}

func (vc *VC) globalStore(st *State, p VPtr, t types.Type, v Value) bool {
	info := cellGlobal[p.Cell]
	if info == nil {
		return false
	}
	name := p.Cell.ID
	key := "G:" + name
	var leaves []Leaf
	var terms []*Term
	if err := flatten(t, 0, &leaves); err != nil || p.Dyn != nil || !vc.disassemble(t, v, &terms) || len(terms) != len(leaves) {
		// unknown shape: havoc every class of this global
		for k := range st.heap {
			if strings.HasPrefix(k, key+"@") {
				vc.havocKey(st, k)
			}
		}
		vc.note("store to global %s with unsupported shape", name)
		return true
	}
	for i, lf := range leaves {
		k := fmt.Sprintf("%s@%d", key, p.Off+lf.Off)
		if lf.Kind == "bool" {
			vc.sortOf[k] = SArrIB
		}
		vc.heapSet(st, k, vc.B.Store(vc.heapGet(st, k), vc.B.Int(0), terms[i]))
	}
	return true
}

func (vc *VC) hasTableLemma(info *globalInfo) bool {
	if vc.CS == nil {
		return false
	}
	pkg := pkgShort(info.g.Pkg.Pkg)
	for _, tl := range vc.CS.TableLemmas {
		if tl.Table == info.g.Name() && tl.Pkg == pkg {
			return true
		}
	}
	return false
}

// useTableLemmas instantiates the table lemmas declared for this global at a load.
func (vc *VC) useTableLemmas(info *globalInfo, idx, v *Term) {
	if vc.CS == nil || idx.IsConst() || idx.bound {
		return
	}
	pkg := pkgShort(info.g.Pkg.Pkg)
	for _, tl := range vc.CS.TableLemmas {
		if tl.Table != info.g.Name() || tl.Pkg != pkg {
			continue
		}
		f := &Frame{vc: vc, fn: vc.fn, names: map[string]CV{}}
		ctx := &EvalCtx{f: f, pkg: tl.Pkg, names: map[string]CV{tl.Idx: {VT{idx}, nil}, tl.Val: {VT{v}, nil}}, bound: map[string]*Term{}, st: &State{pc: vc.B.True(), heap: map[string]*Term{}, cells: map[string]Value{}}}
		g, err := ctx.evalBoolSafe(tl.E)
		if err != nil {
			vc.note("table lemma %s cannot be instantiated: %v", tl.Table, err)
			continue
		}
		// the lemma was proved for the entries of the table only
		B := vc.B
		vc.fact(B.Implies(B.And(B.Le(B.Int(0), idx), B.Lt(idx, B.Int(int64(len(info.table))))), g))
	}
}

// checkTableLemmas proves each table lemma by evaluating it on every entry of the
// table as extracted from the current source.
func (e *Engine) checkTableLemmas(prop string) []*Obligation {
	var out []*Obligation
	for _, tl := range e.CS.TableLemmas {
		has := len(tl.Props) == 0
		for _, p := range tl.Props {
			if p == prop {
				has = true
			}
		}
		if !has {
			continue
		}
		name := tl.Pkg + "." + tl.Table + "/tablelemma"
		o := &Obligation{Name: name, Kind: "tablelemma", Func: tl.Pkg + "." + tl.Table, Text: "for every entry: " + tl.Text, Pos: tl.Pos}
		sp := e.P.ByPkg[tl.Pkg]
		var info *globalInfo
		if sp != nil {
			if g, ok := sp.Members[tl.Table].(*ssa.Global); ok {
				info = theGlobals.info[g]
			}
		}
		o.Res.Solver = "evaluation"
		if info == nil || info.table == nil || !info.readOnly || info.ambiguous {
			o.Res.Verdict = "error"
			o.Res.Output = "table is not a read-only constant array in the current source"
			out = append(out, o)
			continue
		}
		vc := e.newVC(nil, nil, prop)
		B := vc.B
		o.vc = vc
		o.Res.Verdict = "unsat"
		for i, val := range info.table {
			f := &Frame{vc: vc, names: map[string]CV{}}
			v := B.Big(val)
			ctx := &EvalCtx{f: f, pkg: tl.Pkg, names: map[string]CV{tl.Idx: {VT{B.Int(int64(i))}, nil}, tl.Val: {VT{v}, nil}}, bound: map[string]*Term{}, st: &State{pc: B.True(), heap: map[string]*Term{}, cells: map[string]Value{}}}
			if info.elemBool {
				ctx.names[tl.Val] = CV{VT{B.Bool(val.Sign() != 0)}, nil}
			}
			g, err := ctx.evalBoolSafe(tl.E)
			if err != nil {
				o.Res.Verdict = "error"
				o.Res.Output = err.Error()
				break
			}
			if !g.IsTrue() {
				o.Res.Verdict = "sat"
				o.Res.Output = fmt.Sprintf("entry %d (value %s) violates the lemma", i, val)
				o.Res.Model = map[string]string{"index": fmt.Sprint(i), "value": val.String()}
				break
			}
		}
		out = append(out, o)
	}
	return out
}

// checkWriters: a scan of every function of the module for stores to the named
// package-level variable (directly, or to an element of the slice/array it holds).
func (e *Engine) checkWriters(prop string) []*Obligation {
	var out []*Obligation
	for _, w := range e.CS.Writers {
		has := len(w.Props) == 0
		for _, p := range w.Props {
			if p == prop {
				has = true
			}
		}
		if !has {
			continue
		}
		o := &Obligation{Name: w.Pkg + "." + w.Global + "/writers", Kind: "writers", Func: w.Pkg + "." + w.Global,
			Text: "only " + strings.Join(w.Funcs, ", ") + " store to " + w.Global, Pos: w.Pos}
		o.Res.Solver = "store scan over all functions"
		sp := e.P.ByPkg[w.Pkg]
		var g *ssa.Global
		if sp != nil {
			g, _ = sp.Members[w.Global].(*ssa.Global)
		}
		if g == nil {
			o.Res.Verdict = "error"
			o.Res.Output = "no such package-level variable in the current source"
			out = append(out, o)
			continue
		}
		allowed := map[string]bool{}
		for _, f := range w.Funcs {
			allowed[w.Pkg+"."+f] = true
		}
		var bad []string
		for key, fn := range e.P.Funcs {
			if isInitFunc(fn) && fn.Pkg == sp {
				continue
			}
			for _, b := range fn.Blocks {
				for _, in := range b.Instrs {
					st, ok := in.(*ssa.Store)
					if !ok {
						continue
					}
					root, _ := addrRoot(st.Addr)
					hit := root == ssa.Value(g)
					if ld, ok := root.(*ssa.UnOp); ok && ld.Op == token.MUL && ld.X == ssa.Value(g) {
						hit = true // store to an element of the slice held by the variable
					}
					if hit && !allowed[key] {
						bad = append(bad, key)
					}
				}
			}
		}
		if len(bad) == 0 {
			o.Res.Verdict = "unsat"
		} else {
			sort.Strings(bad)
			o.Res.Verdict = "sat"
			o.Res.Output = "unexpected writer(s): " + strings.Join(bad, ", ")
		}
		out = append(out, o)
	}
	return out
}
