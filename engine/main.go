package main

import (
	"runtime/pprof"
	"fmt"
	"runtime/debug"
	"os"
	"sort"
	"strings"
)

func main() {
	if pf := os.Getenv("GOVC_PROF"); pf != "" {
		if f, err := os.Create(pf); err == nil {
			pprof.StartCPUProfile(f)
			defer pprof.StopCPUProfile()
		}
	}
	debug.SetGCPercent(600) // the term tables are long-lived; frequent collection dominated run time
	if len(os.Args) < 2 {
		fmt.Fprintln(os.Stderr, "usage: govc ssa <func>... | check <Cxx> [--tier quick|thorough] | replay <path>")
		exitProf(2)
	}
	switch os.Args[1] {
	case "ssa":
		P, err := loadProgram("verif")
		if err != nil {
			fmt.Fprintln(os.Stderr, err)
			exitProf(2)
		}
		for _, name := range os.Args[2:] {
			fn := P.Funcs[name]
			if fn == nil {
				var cands []string
				for k := range P.Funcs {
					if strings.Contains(k, name) {
						cands = append(cands, k)
					}
				}
				sort.Strings(cands)
				fmt.Printf("no function %q; candidates: %v\n", name, cands)
				continue
			}
			fn.WriteTo(os.Stdout)
		}
	case "verify":
		initWorkDir()
		rc := cmdVerify(os.Args[2:])
		cleanupWorkDir()
		exitProf(rc)
	case "check":
		initWorkDir()
		rc := cmdCheck(os.Args[2:])
		cleanupWorkDir()
		exitProf(rc)
	case "replay":
		exitProf(cmdReplay(os.Args[2:]))
	case "globals":
		P, err := loadProgram("verif")
		if err != nil {
			fmt.Fprintln(os.Stderr, err)
			exitProf(2)
		}
		gi := buildGlobalIndex(P)
		for g, info := range gi.info {
			for _, a := range os.Args[2:] {
				if strings.Contains(g.Name(), a) {
					fmt.Printf("%s.%s readOnly=%v ambiguous=%v scalar=%v table=%d ptrElems=%d\n", pkgShort(g.Pkg.Pkg), g.Name(), info.readOnly, info.ambiguous, info.scalar, len(info.table), len(info.ptrElems))
				}
			}
		}
	case "loops":
		exitProf(cmdLoops(os.Args[2:]))
	default:
		fmt.Fprintln(os.Stderr, "unknown command")
		exitProf(2)
	}
}

func exitProf(rc int) {
	pprof.StopCPUProfile()
	os.Exit(rc)
}
