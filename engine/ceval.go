package main

import (
	"fmt"
	"os"
	"go/constant"
	"go/types"
	"math/big"
	"strings"

	"golang.org/x/tools/go/ssa"
)

// CV is a contract-level value: a symbolic value plus the Go type used to
// resolve fields, indexing and dereferences (nil for pure mathematical values).
type CV struct {
	V Value
	T types.Type
}

type EvalCtx struct {
	f        *Frame
	st       *State
	old      *State
	names    map[string]CV
	bound    map[string]*Term
	override map[ssa.Value]Value
	at       *ssa.BasicBlock // program point for SSA name resolution (loop head), nil = function boundary
	inQuant  int
	assumeMode bool
	inOld    bool
	pkg      string
	declareRegions bool
	atEnd    bool // resolve SSA names at the end of block `at` (returns) instead of its entry
	forceNames bool // contract names shadow SSA variables (expanded quantifier variables)
	depth    int
}

type evalError struct{ msg string }

func evalFail(format string, args ...interface{}) {
	panic(evalError{fmt.Sprintf(format, args...)})
}

func (f *Frame) newCtx(st, old *State) *EvalCtx {
	names := map[string]CV{}
	for k, v := range f.names {
		names[k] = v
	}
	return &EvalCtx{f: f, st: st, old: old, names: names, bound: map[string]*Term{}}
}

// evalClause evaluates a boolean clause; errors become a failing obligation upstream.
func (c *EvalCtx) evalBoolSafe(e *Expr) (t *Term, err error) {
	defer func() {
		if r := recover(); r != nil {
			if ee, ok := r.(evalError); ok {
				err = fmt.Errorf("%s (in %s)", ee.msg, e.String())
				return
			}
			panic(r)
		}
	}()
	return c.evalBool(e), nil
}

func (c *EvalCtx) evalIntSafe(e *Expr) (t *Term, err error) {
	defer func() {
		if r := recover(); r != nil {
			if ee, ok := r.(evalError); ok {
				err = fmt.Errorf("%s (in %s)", ee.msg, e.String())
				return
			}
			panic(r)
		}
	}()
	return c.evalInt(e), nil
}

func (c *EvalCtx) evalBool(e *Expr) *Term {
	v := c.eval(e)
	t, ok := v.V.(VT)
	if !ok || t.T.sort != SBool {
		evalFail("expected a boolean: %s", e.String())
	}
	return t.T
}

func (c *EvalCtx) evalInt(e *Expr) *Term {
	v := c.eval(e)
	switch t := v.V.(type) {
	case VT:
		if t.T.sort == SInt {
			return t.T
		}
	case VPtr:
		if t.Cell == nil {
			return t.Addr
		}
	}
	evalFail("expected an integer: %s", e.String())
	return nil
}

func (c *EvalCtx) vc() *VC { return c.f.vc }

// pkgName: the package whose specs and package-level names are in scope.
func (c *EvalCtx) pkgName() string {
	if c.pkg != "" {
		return c.pkg
	}
	if c.f.fn != nil && c.f.fn.Pkg != nil {
		return pkgShort(c.f.fn.Pkg.Pkg)
	}
	return ""
}

func (c *EvalCtx) eval(e *Expr) CV {
	B := c.vc().B
	switch e.Op {
	case "int":
		v, _ := new(big.Int).SetString(e.Int, 10)
		return CV{VT{B.Big(v)}, nil}
	case "bool":
		return CV{VT{B.Bool(e.Name == "true")}, nil}
	case "nil":
		return CV{VT{B.Int(0)}, nil}
	case "str":
		return CV{c.vc().stringConst(e.Name), types.Typ[types.String]}
	case "name":
		return c.resolveName(e.Name)
	case "old":
		if c.old == nil {
			evalFail("old() not available here")
		}
		// names keep their meaning at the current program point; memory is the entry state
		sub := *c
		sub.st = c.old
		sub.inOld = true
		return sub.eval(e.Args[0])
	case "un":
		switch e.Name {
		case "!":
			return CV{VT{B.Not(c.evalBool(e.Args[0]))}, nil}
		case "-":
			return CV{VT{B.Neg(c.evalInt(e.Args[0]))}, nil}
		}
	case "ite":
		cond := c.evalBool(e.Args[0])
		if cond.IsTrue() {
			return c.eval(e.Args[1])
		}
		if cond.IsFalse() {
			return c.eval(e.Args[2])
		}
		a, b := c.eval(e.Args[1]), c.eval(e.Args[2])
		m := c.vc().mergeValue(cond, a.V, b.V)
		if m == nil {
			evalFail("incompatible branches in %s", e.String())
		}
		return CV{m, a.T}
	case "forall", "exists":
		if r, ok := c.expandBounded(e); ok {
			return CV{VT{r}, nil}
		}
		sub := *c
		sub.bound = map[string]*Term{}
		for k, v := range c.bound {
			sub.bound[k] = v
		}
		var vars []*Term
		for _, n := range e.Vars {
			bv := B.BVarAt(n, c.inQuant, SInt)
			sub.bound[n] = bv
			vars = append(vars, bv)
		}
		sub.inQuant++
		body := sub.evalBool(e.Args[0])
		if e.Op == "forall" {
			return CV{VT{B.Forall(vars, body)}, nil}
		}
		return CV{VT{B.Exists(vars, body)}, nil}
	case "bin":
		return c.evalBin(e)
	case "field":
		return c.evalField(c.eval(e.Args[0]), e.Name)
	case "index":
		return c.evalIndex(c.eval(e.Args[0]), c.evalInt(e.Args[1]))
	case "slice":
		return c.evalSlice(e)
	case "call":
		return c.evalCall(e)
	}
	evalFail("cannot evaluate %s", e.String())
	return CV{}
}

func (c *EvalCtx) evalBin(e *Expr) CV {
	B := c.vc().B
	op := e.Name
	switch op {
	case "&&":
		return CV{VT{B.And(c.evalBool(e.Args[0]), c.evalBool(e.Args[1]))}, nil}
	case "||":
		return CV{VT{B.Or(c.evalBool(e.Args[0]), c.evalBool(e.Args[1]))}, nil}
	case "==>":
		return CV{VT{B.Implies(c.evalBool(e.Args[0]), c.evalBool(e.Args[1]))}, nil}
	case "<==>":
		return CV{VT{B.Eq(c.evalBool(e.Args[0]), c.evalBool(e.Args[1]))}, nil}
	case "==", "!=":
		a, b := c.eval(e.Args[0]), c.eval(e.Args[1])
		eq := c.cvEqual(a, b, e)
		if op == "!=" {
			eq = B.Not(eq)
		}
		return CV{VT{eq}, nil}
	}
	x, y := c.evalInt(e.Args[0]), c.evalInt(e.Args[1])
	switch op {
	case "<":
		return CV{VT{B.Lt(x, y)}, nil}
	case "<=":
		return CV{VT{B.Le(x, y)}, nil}
	case ">":
		return CV{VT{B.Gt(x, y)}, nil}
	case ">=":
		return CV{VT{B.Ge(x, y)}, nil}
	case "+":
		return CV{VT{B.Add(x, y)}, nil}
	case "-":
		return CV{VT{B.Sub(x, y)}, nil}
	case "*":
		pr := B.Mul(x, y)
		if c.inQuant == 0 && !pr.bound {
			c.vc().noteProduct(x, y, pr)
		}
		return CV{VT{pr}, nil}
	case "/":
		return CV{VT{B.Div(x, y)}, nil}
	case "%":
		return CV{VT{B.Mod(x, y)}, nil}
	case "<<":
		if y.IsConst() {
			return CV{VT{B.Mul(x, B.Big(pow2(uint(y.ival.Int64()))))}, nil}
		}
		c.vc().pow2Fun()
		return CV{VT{B.Mul(x, B.App("tbl_pow2", y))}, nil}
	case ">>":
		if y.IsConst() {
			return CV{VT{B.Div(x, B.Big(pow2(uint(y.ival.Int64()))))}, nil}
		}
		c.vc().pow2Fun()
		return CV{VT{B.Div(x, B.App("tbl_pow2", y))}, nil}
	}
	evalFail("operator %s unsupported in contracts", op)
	return CV{}
}

func (c *EvalCtx) cvEqual(a, b CV, e *Expr) *Term {
	B := c.vc().B
	isNil := func(v CV) bool {
		t, ok := v.V.(VT)
		return ok && v.T == nil && t.T.IsConst() && t.T.ival.Sign() == 0
	}
	if isNil(b) {
		a, b = b, a
	}
	if isNil(a) {
		switch y := b.V.(type) {
		case VIface:
			return B.Eq(y.Typ, B.Int(0))
		case VSlice:
			return B.Eq(y.Ptr, B.Int(0))
		case VString:
			evalFail("string compared with nil")
		case VPtr:
			if y.Cell != nil {
				return B.False()
			}
			return B.Eq(y.Addr, B.Int(0))
		case VT:
			if y.T.sort == SInt {
				return B.Eq(y.T, B.Int(0))
			}
		}
	}
	switch x := a.V.(type) {
	case VT:
		switch y := b.V.(type) {
		case VT:
			if x.T.sort == y.T.sort {
				return B.Eq(x.T, y.T)
			}
		case VPtr:
			if y.Cell == nil {
				return B.Eq(x.T, y.Addr)
			}
		}
	case VPtr:
		switch y := b.V.(type) {
		case VT:
			if x.Cell == nil {
				return B.Eq(x.Addr, y.T)
			}
		case VPtr:
			if x.Cell == nil && y.Cell == nil {
				return B.Eq(x.Addr, y.Addr)
			}
		}
	case VSlice:
		if y, ok := b.V.(VSlice); ok {
			return B.And(B.Eq(x.Ptr, y.Ptr), B.Eq(x.Len, y.Len))
		}
	case VString:
		if y, ok := b.V.(VString); ok {
			if r := c.f.stringEq(c.st, x, y); r != nil {
				return r
			}
			return B.And(B.Eq(x.Ptr, y.Ptr), B.Eq(x.Len, y.Len))
		}
	case VIface:
		if y, ok := b.V.(VIface); ok {
			return B.And(B.Eq(x.Typ, y.Typ), B.Eq(x.Data, y.Data))
		}
	}
	evalFail("cannot compare operands of %s", e.String())
	return nil
}

func derefType(t types.Type) types.Type {
	if t == nil {
		return nil
	}
	if p, ok := t.Underlying().(*types.Pointer); ok {
		return p.Elem()
	}
	return nil
}

func (c *EvalCtx) evalField(x CV, name string) CV {
	vc := c.vc()
	B := vc.B
	if x.T == nil {
		evalFail("field %s of untyped value", name)
	}
	// struct value
	if s, ok := x.T.Underlying().(*types.Struct); ok {
		tu, ok := x.V.(VTuple)
		if !ok {
			evalFail("field %s of non-struct value", name)
		}
		for i := 0; i < s.NumFields(); i++ {
			if s.Field(i).Name() == name {
				return CV{tu.Elems[i], s.Field(i).Type()}
			}
		}
		evalFail("no field %s in %s", name, x.T)
	}
	st := derefType(x.T)
	if st == nil {
		evalFail("field %s of non-pointer type %s", name, x.T)
	}
	s, ok := st.Underlying().(*types.Struct)
	if !ok {
		evalFail("field %s of pointer to non-struct %s", name, x.T)
	}
	idx := -1
	for i := 0; i < s.NumFields(); i++ {
		if s.Field(i).Name() == name {
			idx = i
		}
	}
	if idx < 0 {
		evalFail("no field %s in %s", name, st)
	}
	off := fieldOffsets(s)[idx]
	ft := s.Field(idx).Type()
	key := fieldKey(st, idx)
	switch ft.Underlying().(type) {
	case *types.Struct, *types.Array:
		key = ""
	}
	switch p := x.V.(type) {
	case VPtr:
		if p.Cell != nil {
			return CV{vc.cellLoad(c.st, VPtr{Cell: p.Cell, Off: p.Off + off, Dyn: p.Dyn}, ft), ft}
		}
		return c.loadField(B.Add(p.Addr, B.Int(off)), key, ft)
	case VT:
		return c.loadField(B.Add(p.T, B.Int(off)), key, ft)
	}
	evalFail("field %s of unsupported value", name)
	return CV{}
}

func (c *EvalCtx) loadField(addr *Term, key string, ft types.Type) CV {
	vc := c.vc()
	// by-value struct/array fields stay as addresses (pointer to the inner object)
	switch ft.Underlying().(type) {
	case *types.Struct:
		return CV{VT{addr}, types.NewPointer(ft)}
	case *types.Array:
		return CV{VT{addr}, types.NewPointer(ft)}
	}
	if c.inQuant > 0 {
		return CV{c.quantLoad(addr, key, ft), ft}
	}
	return CV{vc.loadTyped(c.st, addr, key, ft), ft}
}

// quantLoad reads memory under a quantifier without emitting side facts that
// would mention the bound variable.
func (c *EvalCtx) quantLoad(addr *Term, key string, t types.Type) Value {
	vc := c.vc()
	B := vc.B
	var leaves []Leaf
	if err := flatten(t, 0, &leaves); err != nil {
		evalFail("unsupported type under quantifier: %s", t)
	}
	terms := make([]*Term, len(leaves))
	for i, lf := range leaves {
		a := B.Add(addr, B.Int(lf.Off))
		cls, isM := leafClass(key, lf)
		if isM {
			M := vc.heapGet(c.st, "M")
			var parts []*Term
			mul := big.NewInt(1)
			for j := int64(0); j < lf.Size; j++ {
				parts = append(parts, B.Mul(B.Big(mul), B.Select(M, B.Add(a, B.Int(j)))))
				mul = new(big.Int).Lsh(mul, 8)
			}
			u := B.Add(parts...)
			if _, signed, _ := intInfo(lf.Typ); signed {
				u = B.Ite(B.Ge(u, B.Big(pow2(uint(lf.Size*8-1)))), B.Sub(u, B.Big(pow2(uint(lf.Size*8)))), u)
			}
			if lf.Kind == "bool" {
				u = B.Ne(u, B.Int(0))
			}
			terms[i] = u
		} else {
			if lf.Kind == "bool" {
				vc.sortOf[cls] = SArrIB
			}
			terms[i] = B.Select(vc.heapGet(c.st, cls), a)
		}
	}
	pos := 0
	return vc.assemble(t, terms, &pos)
}

func (c *EvalCtx) evalIndex(x CV, idx *Term) CV {
	vc := c.vc()
	B := vc.B
	load := func(addr *Term, et types.Type) CV {
		switch et.Underlying().(type) {
		case *types.Struct, *types.Array:
			return CV{VT{addr}, types.NewPointer(et)}
		}
		if c.inQuant > 0 || idx.bound {
			return CV{c.quantLoad(addr, "", et), et}
		}
		return CV{vc.loadTyped(c.st, addr, "", et), et}
	}
	switch v := x.V.(type) {
	case VSlice:
		var et types.Type = types.Typ[types.Uint8]
		if x.T != nil {
			if s, ok := x.T.Underlying().(*types.Slice); ok {
				et = s.Elem()
			}
		}
		return load(B.Add(v.Ptr, B.Mul(B.Int(sizeOf(et)), idx)), et)
	case VString:
		return load(B.Add(v.Ptr, idx), types.Typ[types.Uint8])
	case VPtr:
		if v.Cell != nil {
			// global table or local array cell
			at := x.T
			if d := derefType(at); d != nil {
				at = d
			}
			arr, ok := at.Underlying().(*types.Array)
			if !ok {
				evalFail("index of non-array cell")
			}
			if cellGlobal[v.Cell] != nil && v.Idx == nil && v.Off == 0 {
				r, _ := vc.globalLoad(c.st, VPtr{Cell: v.Cell}, arr.Elem(), idx)
				return CV{r, arr.Elem()}
			}
			es := sizeOf(arr.Elem())
			return CV{vc.cellLoad(c.st, VPtr{Cell: v.Cell, Off: v.Off, Dyn: B.Mul(B.Int(es), idx)}, arr.Elem()), arr.Elem()}
		}
		if d := derefType(x.T); d != nil {
			if arr, ok := d.Underlying().(*types.Array); ok {
				return load(B.Add(v.Addr, B.Mul(B.Int(sizeOf(arr.Elem())), idx)), arr.Elem())
			}
		}
	case VT:
		if d := derefType(x.T); d != nil {
			if arr, ok := d.Underlying().(*types.Array); ok {
				return load(B.Add(v.T, B.Mul(B.Int(sizeOf(arr.Elem())), idx)), arr.Elem())
			}
		}
	case VTuple:
		if idx.IsConst() {
			i := idx.ival.Int64()
			if i >= 0 && int(i) < len(v.Elems) {
				var et types.Type
				if x.T != nil {
					if a, ok := x.T.Underlying().(*types.Array); ok {
						et = a.Elem()
					}
				}
				return CV{v.Elems[i], et}
			}
		}
	}
	evalFail("cannot index this value")
	return CV{}
}

func (c *EvalCtx) evalSlice(e *Expr) CV {
	B := c.vc().B
	x := c.eval(e.Args[0])
	var lo, hi *Term
	if e.Args[1] != nil {
		lo = c.evalInt(e.Args[1])
	} else {
		lo = B.Int(0)
	}
	if e.Args[2] != nil {
		hi = c.evalInt(e.Args[2])
	}
	switch v := x.V.(type) {
	case VSlice:
		if hi == nil {
			hi = v.Len
		}
		es := int64(1)
		if x.T != nil {
			if s, ok := x.T.Underlying().(*types.Slice); ok {
				es = sizeOf(s.Elem())
			}
		}
		return CV{VSlice{B.Add(v.Ptr, B.Mul(B.Int(es), lo)), B.Sub(hi, lo), B.Sub(v.Cap, lo)}, x.T}
	case VString:
		if hi == nil {
			hi = v.Len
		}
		return CV{VString{B.Add(v.Ptr, lo), B.Sub(hi, lo)}, x.T}
	}
	evalFail("cannot slice this value")
	return CV{}
}

func (c *EvalCtx) evalCall(e *Expr) CV {
	vc := c.vc()
	B := vc.B
	arg := func(i int) CV {
		if i >= len(e.Args) {
			evalFail("%s: missing argument %d", e.Name, i)
		}
		return c.eval(e.Args[i])
	}
	switch e.Name {
	case "len":
		switch v := arg(0).V.(type) {
		case VSlice:
			return CV{VT{v.Len}, nil}
		case VString:
			return CV{VT{v.Len}, nil}
		case VTuple:
			return CV{VT{B.Int(int64(len(v.Elems)))}, nil}
		case VPtr:
			if v.Cell != nil {
				if a, ok := v.Cell.Typ.Underlying().(*types.Array); ok {
					return CV{VT{B.Int(a.Len())}, nil}
				}
			}
		}
		evalFail("len of unsupported value")
	case "cap":
		if v, ok := arg(0).V.(VSlice); ok {
			return CV{VT{v.Cap}, nil}
		}
		evalFail("cap of unsupported value")
	case "ptrOf":
		switch v := arg(0).V.(type) {
		case VSlice:
			return CV{VT{v.Ptr}, nil}
		case VString:
			return CV{VT{v.Ptr}, nil}
		case VPtr:
			if v.Cell == nil {
				return CV{VT{v.Addr}, nil}
			}
		case VT:
			return CV{v, nil}
		}
		evalFail("ptrOf of unsupported value")
	case "typeOf":
		if v, ok := arg(0).V.(VIface); ok {
			return CV{VT{v.Typ}, nil}
		}
		evalFail("typeOf of non-interface")
	case "holdsPtrTo":
		// holdsPtrTo(i, T): the dynamic type of interface value i is *T (T a type of the package in scope)
		if len(e.Args) != 2 || e.Args[1].Op != "name" {
			evalFail("holdsPtrTo(interface, TypeName)")
		}
		v, ok := arg(0).V.(VIface)
		if !ok {
			evalFail("holdsPtrTo of non-interface")
		}
		var sp *ssa.Package
		if c.pkg != "" {
			sp = vc.P.ByPkg[c.pkg]
		}
		if sp == nil && c.f.fn != nil {
			sp = c.f.fn.Pkg
		}
		if sp != nil {
			if tn, ok := sp.Members[e.Args[1].Name].(*ssa.Type); ok {
				return CV{VT{B.Eq(v.Typ, B.Int(int64(vc.typeID(typeKey(types.NewPointer(tn.Type()))))))}, nil}
			}
		}
		evalFail("holdsPtrTo: unknown type %s", e.Args[1].Name)
	case "dataOf":
		if v, ok := arg(0).V.(VIface); ok {
			return CV{VT{v.Data}, nil}
		}
		evalFail("dataOf of non-interface")
	case "int", "int64", "uint64", "uintptr", "int32", "uint32", "uint8", "byte", "uint16", "int8", "int16", "uint":
		return CV{VT{c.evalInt(e.Args[0])}, nil}
	case "M":
		a := c.evalInt(e.Args[0])
		M := vc.heapGet(c.st, "M")
		return CV{VT{B.Select(M, a)}, nil}
	case "wordAt": // wordAt(addr, nbytes): unsigned little-endian integer in the byte heap
		a := c.evalInt(e.Args[0])
		n := c.evalInt(e.Args[1])
		if !n.IsConst() {
			evalFail("wordAt needs a constant width")
		}
		M := vc.heapGet(c.st, "M")
		var parts []*Term
		mul := big.NewInt(1)
		for j := int64(0); j < n.ival.Int64(); j++ {
			parts = append(parts, B.Mul(B.Big(mul), B.Select(M, B.Add(a, B.Int(j)))))
			mul = new(big.Int).Lsh(mul, 8)
		}
		return CV{VT{B.Add(parts...)}, nil}
	case "region":
		// region(base, size): as a precondition it declares memory the function may access raw
		base, size := c.evalInt(e.Args[0]), c.evalInt(e.Args[1])
		if c.declareRegions {
			vc.regions = append(vc.regions, Region{Base: base, Size: size, What: "requires region", Writable: true})
			vc.fact(B.And(B.Le(B.Int(0), base), B.Le(B.Add(base, size), B.Big(maxAddr))))
			return CV{VT{B.True()}, nil}
		}
		var alts []*Term
		for _, r := range vc.regions {
			alts = append(alts, B.And(B.Le(r.Base, base), B.Le(B.Add(base, size), B.Add(r.Base, r.Size))))
		}
		return CV{VT{B.Or(alts...)}, nil}
	case "freshregion":
		// freshregion(p, n): memory allocated by the callee: disjoint from every region known so far
		base, size := c.evalInt(e.Args[0]), c.evalInt(e.Args[1])
		if c.declareRegions {
			vc.fact(B.And(B.Lt(B.Int(0), base), B.Le(B.Add(base, size), B.Big(maxAddr))))
			vc.freshRegion(c.st, base, size)
			return CV{VT{B.True()}, nil}
		}
		evalFail("freshregion is only meaningful in the postcondition of a trusted allocator")
	case "within":
		a, n, base, m := c.evalInt(e.Args[0]), c.evalInt(e.Args[1]), c.evalInt(e.Args[2]), c.evalInt(e.Args[3])
		return CV{VT{B.And(B.Le(base, a), B.Le(B.Add(a, n), B.Add(base, m)))}, nil}
	case "isNaN", "isInf":
		vc.ensureFloatFuns()
		t := arg(0).V.(VT).T
		if e.Name == "isNaN" {
			return CV{VT{B.App("f_isnan", t)}, nil}
		}
		return CV{VT{B.App("f_isinf", t)}, nil}
	case "deref":
		x := arg(0)
		et := derefType(x.T)
		if et == nil {
			evalFail("deref of non-pointer")
		}
		switch p := x.V.(type) {
		case VT:
			return c.loadField(p.T, "", et)
		case VPtr:
			if p.Cell != nil {
				return CV{vc.cellLoad(c.st, p, et), et}
			}
			return c.loadField(p.Addr, p.Key, et)
		}
		evalFail("deref of unsupported value")
	case "ncalls", "callarg":
		// ghost call log of calls through function-typed struct fields: ncalls("T.f"), callarg("T.f", i)
		if len(e.Args) < 1 || e.Args[0].Op != "str" {
			evalFail("%s needs a string literal field name", e.Name)
		}
		key := c.f.vc.qualifyFieldKey(c.f, e.Args[0].Name)
		if e.Name == "ncalls" {
			return CV{VT{B.Select(vc.heapGet(c.st, "ghost:ncalls:"+key), B.Int(0))}, nil}
		}
		i := c.evalInt(e.Args[1])
		return CV{VT{B.Select(vc.heapGet(c.st, fmt.Sprintf("ghost:arg%s:%s", i.ival.String(), key)), B.Int(0))}, nil}
	case "stringAt":
		// stringAt(p): the string header stored at address p
		a := c.evalInt(e.Args[0])
		st := types.Typ[types.String]
		if c.inQuant > 0 {
			return CV{c.quantLoad(a, "", st), st}
		}
		return CV{vc.loadTyped(c.st, a, "", st), st}
	case "bytesAt":
		// bytesAt(p): the []byte header stored at address p
		a := c.evalInt(e.Args[0])
		bt := types.NewSlice(types.Universe.Lookup("byte").Type())
		if c.inQuant > 0 {
			return CV{c.quantLoad(a, "", bt), bt}
		}
		return CV{vc.loadTyped(c.st, a, "", bt), bt}
	case "cast":
		// cast(p, T): view the pointer value p as *T (T a struct type of the package in scope)
		if len(e.Args) != 2 || e.Args[1].Op != "name" {
			evalFail("cast(pointer, TypeName)")
		}
		v := arg(0)
		var sp *ssa.Package
		if c.pkg != "" {
			sp = vc.P.ByPkg[c.pkg]
		}
		if sp == nil && c.f.fn != nil {
			sp = c.f.fn.Pkg
		}
		if sp != nil {
			if tn, ok := sp.Members[e.Args[1].Name].(*ssa.Type); ok {
				return CV{v.V, types.NewPointer(tn.Type())}
			}
		}
		evalFail("cast: unknown type %s", e.Args[1].Name)
	case "poolfree":
		// poolfree(e): the value of e does not mention the contents a pooled object had when
		// this call began (syntactic independence: no entry-heap symbol of a pooled struct class)
		v := arg(0)
		var terms []*Term
		collectTerms(v.V, &terms)
		if c.assumeMode {
			// a loop invariant poolfree(e), proved on entry and preserved, is being assumed at the
			// loop head: the havoc symbols standing for e there are clean from now on
			for _, t := range terms {
				markClean(vc, t)
			}
			return CV{VT{B.True()}, nil}
		}
		for _, t := range terms {
			if mentionsPoolEntry(vc, t) {
				return CV{VT{B.False()}, nil}
			}
		}
		return CV{VT{B.True()}, nil}
	case "freshAlloc":
		// freshAlloc(s): the slice's array was allocated during this call
		if sl, ok := arg(0).V.(VSlice); ok {
			for _, r := range vc.regions {
				if r.What == "alloc" && r.Base == sl.Ptr {
					return CV{VT{B.True()}, nil}
				}
			}
		}
		return CV{VT{B.False()}, nil}
	case "sameOrNewArray":
		// sameOrNewArray(e), e slice-valued: the array behind e is (a part of) the array e had on entry, or
		// was allocated during this call. Proved at the returns of a verified function; at a call site it
		// is assumed and the new array (when it is not the old one) becomes a region allocated in the
		// caller, apart from everything the caller knew. Use it as a top-level conjunct of an ensures clause.
		if c.old == nil {
			evalFail("sameOrNewArray needs an entry state")
		}
		nw, ok1 := arg(0).V.(VSlice)
		sub := *c
		sub.st = c.old
		sub.inOld = true
		od, ok2 := sub.eval(e.Args[0]).V.(VSlice)
		if !ok1 || !ok2 {
			evalFail("sameOrNewArray needs a slice")
		}
		kept := B.And(B.Le(od.Ptr, nw.Ptr), B.Le(B.Add(nw.Ptr, nw.Cap), B.Add(od.Ptr, od.Cap)))
		if c.declareRegions || c.assumeMode {
			for _, r := range vc.regions {
				ext := r.Size
				if r.Own != nil {
					ext = r.Own
				}
				vc.fact(B.Or(kept, B.Le(B.Add(nw.Ptr, nw.Cap), r.Base), B.Le(B.Add(r.Base, ext), nw.Ptr), B.Le(ext, B.Int(0))))
			}
			// Go's type invariant for a slice value: its array lies in user space
			vc.fact(B.And(B.Le(B.Int(0), nw.Ptr), B.Le(B.Int(0), nw.Cap), B.Le(B.Add(nw.Ptr, nw.Cap), B.Big(maxAddr))))
			vc.regions = append(vc.regions, Region{Base: nw.Ptr, Size: B.Ite(kept, B.Int(0), nw.Cap), What: "alloc", Writable: true})
			return CV{VT{B.True()}, nil}
		}
		alts := []*Term{kept}
		for _, r := range vc.regions {
			if r.What == "alloc" {
				alts = append(alts, B.And(B.Le(r.Base, nw.Ptr), B.Le(B.Add(nw.Ptr, nw.Cap), B.Add(r.Base, r.Size))))
			}
		}
		return CV{VT{B.Or(alts...)}, nil}
	case "bufLen", "bufAt":
		// abstract bytes.Buffer model: bufLen(b), bufAt(b, i)
		b0 := c.evalInt(e.Args[0])
		if e.Name == "bufLen" {
			return CV{VT{B.Select(vc.heapGet(c.st, "ghost:bbuf.len"), b0)}, nil}
		}
		i := c.evalInt(e.Args[1])
		return CV{VT{B.Select(vc.heapGet(c.st, "ghost:bbuf.data"), B.Add(B.Mul(B.Big(pow2(48)), b0), i))}, nil}
	case "pow10":
		n := c.evalInt(e.Args[0])
		if n.IsConst() {
			return CV{VT{B.Big(new(big.Int).Exp(big.NewInt(10), n.ival, nil))}, nil}
		}
		vals := make([]*big.Int, 40)
		for i := range vals {
			vals[i] = new(big.Int).Exp(big.NewInt(10), big.NewInt(int64(i)), nil)
		}
		return CV{VT{B.App(B.tableFun("pow10", vals, false), n)}, nil}
	case "pow2":
		n := c.evalInt(e.Args[0])
		if n.IsConst() {
			return CV{VT{B.Big(pow2(uint(n.ival.Int64())))}, nil}
		}
		vc.pow2Fun()
		return CV{VT{B.App("tbl_pow2", n)}, nil}
	}
	if m, ok := vc.CS.macro(c.pkgName(), e.Name); ok {
		if len(m.Params) != len(e.Args) {
			evalFail("spec %s expects %d arguments", e.Name, len(m.Params))
		}
		if c.depth > 40 {
			// unbounded recursion on a symbolic argument: the value is left unconstrained
			// (sound: a formula valid for every value of the symbol is valid for the real one)
			vc.note("spec %s expanded beyond depth 40 on a symbolic argument; value left unconstrained", e.Name)
			return CV{VT{B.Fresh("specdeep_"+e.Name, SInt)}, nil}
		}
		sub := *c
		sub.names = map[string]CV{}
		for k, v := range c.names {
			sub.names[k] = v
		}
		for i, p := range m.Params {
			sub.names[p] = c.eval(e.Args[i])
		}
		// inside a spec body only its parameters, bound variables and package-level
		// names are visible (no capture of SSA variables of the function under proof)
		sub.at = nil
		sub.override = nil
		sub.bound = map[string]*Term{}
		for k, v := range c.bound {
			sub.bound[k] = v
		}
		for _, p := range m.Params {
			delete(sub.bound, p) // parameters shadow quantified variables of the caller
		}
		sub.depth++
		return sub.eval(m.Body)
	}
	if u, ok := vc.CS.UFuns[e.Name]; ok {
		if len(u.Params) != len(e.Args) {
			evalFail("ufun %s expects %d arguments", e.Name, len(u.Params))
		}
		B.DefineFun("u_"+e.Name, u.Params, u.Ret, "", nil)
		args := make([]*Term, len(e.Args))
		for i := range e.Args {
			if u.Params[i] == SBool {
				args[i] = c.evalBool(e.Args[i])
			} else {
				args[i] = c.evalInt(e.Args[i])
			}
		}
		return CV{VT{B.App("u_"+e.Name, args...)}, nil}
	}
	evalFail("unknown spec function %s", e.Name)
	return CV{}
}

// resolveName looks a contract identifier up: bound variables, contract names
// (parameters, results, lets), SSA variables at the program point, package
// globals and constants, zero-argument specs.
func (c *EvalCtx) resolveName(name string) CV {
	vc := c.vc()
	B := vc.B
	if t, ok := c.bound[name]; ok {
		return CV{VT{t}, nil}
	}
	if c.forceNames {
		if v, ok := c.names[name]; ok && v.T == nil {
			return v
		}
	}
	if c.inOld {
		if v, ok := c.names[name]; ok {
			return v // old(x) of a parameter is its entry value, even where a loop variable shadows it
		}
	}
	if c.at != nil {
		if v, ok := c.resolveSSA(name); ok {
			return v
		}
	}
	if v, ok := c.names[name]; ok {
		return v
	}
	if m, ok := vc.CS.macro(c.pkgName(), name); ok && len(m.Params) == 0 {
		return c.eval(m.Body)
	}
	// package-level objects of the function's package
	if c.f.fn.Pkg != nil {
		if mem, ok := c.f.fn.Pkg.Members[name]; ok {
			switch m := mem.(type) {
			case *ssa.Global:
				p := vc.globalPtr(m).(VPtr)
				t := m.Type().(*types.Pointer).Elem()
				if _, isArr := t.Underlying().(*types.Array); isArr {
					return CV{p, m.Type()}
				}
				return CV{vc.cellLoad(c.st, p, t), t}
			case *ssa.NamedConst:
				if m.Value.Value != nil {
					switch m.Value.Value.Kind() {
					case constant.Int:
						v, _ := new(big.Int).SetString(m.Value.Value.ExactString(), 10)
						return CV{VT{B.Big(v)}, nil}
					case constant.Bool:
						return CV{VT{B.Bool(constant.BoolVal(m.Value.Value))}, nil}
					}
				}
			}
		}
	}
	evalFail("unresolved name %q", name)
	return CV{}
}

func (c *EvalCtx) ssaValue(v ssa.Value) Value {
	if c.override != nil {
		if r, ok := c.override[v]; ok {
			return r
		}
	}
	return c.f.lookup(c.st, v)
}

// resolveSSA finds the SSA value holding source variable `name` at block c.at:
// a phi of that block named name, else the nearest definition/use up the
// dominator tree (go/ssa records these as DebugRef instructions).
func (c *EvalCtx) resolveSSA(name string) (CV, bool) {
	b := c.at
	if !c.atEnd {
		for _, in := range b.Instrs {
			p, ok := in.(*ssa.Phi)
			if !ok {
				break
			}
			if p.Comment == name {
				return CV{c.ssaValue(p), p.Type()}, true
			}
		}
	}
	start := b.Idom()
	if c.atEnd {
		start = b
	}
	for d := start; d != nil; d = d.Idom() {
		for i := len(d.Instrs) - 1; i >= 0; i-- {
			switch x := d.Instrs[i].(type) {
			case *ssa.DebugRef:
				obj := x.Object()
				if obj == nil || obj.Name() != name {
					continue
				}
				if _, isVar := obj.(*types.Var); !isVar {
					continue
				}
				if x.IsAddr {
					pv := c.ssaValue(x.X)
					t := obj.Type()
					if p, ok := pv.(VPtr); ok && p.Cell != nil {
						return CV{c.vc().cellLoad(c.st, p, t), t}, true
					}
					if p, ok := pv.(VT); ok {
						return CV{c.vc().loadTyped(c.st, p.T, "", t), t}, true
					}
					continue
				}
				return CV{c.ssaValue(x.X), obj.Type()}, true
			case *ssa.Phi:
				if x.Comment == name {
					return CV{c.ssaValue(x), x.Type()}, true
				}
			}
		}
	}
	for _, p := range c.f.fn.Params {
		if p.Name() == name {
			return CV{c.ssaValue(p), p.Type()}, true
		}
	}
	return CV{}, false
}

func describeClause(cl *Clause) string {
	return strings.TrimSpace(cl.Kind + " " + cl.Text)
}

// expandBounded turns "forall k :: lo <= k && k < hi ==> body" (and the exists
// analogue with &&) into a finite conjunction when lo and hi evaluate to
// constants at most 64 apart.
func (c *EvalCtx) expandBounded(e *Expr) (*Term, bool) {
	if len(e.Vars) != 1 {
		return nil, false
	}
	k := e.Vars[0]
	body := e.Args[0]
	var guard, rest *Expr
	if e.Op == "forall" {
		if body.Op != "bin" || body.Name != "==>" {
			return nil, false
		}
		guard, rest = body.Args[0], body.Args[1]
	} else {
		if body.Op != "bin" || body.Name != "&&" {
			return nil, false
		}
		guard, rest = body.Args[0], body.Args[1]
	}
	var conj []*Expr
	var flat func(x *Expr)
	flat = func(x *Expr) {
		if x.Op == "bin" && x.Name == "&&" {
			flat(x.Args[0])
			flat(x.Args[1])
			return
		}
		conj = append(conj, x)
	}
	flat(guard)
	mentions := func(x *Expr) bool { return strings.Contains(" "+x.String()+" ", k) && exprMentions(x, k) }
	var lo, hi *big.Int
	var others []*Expr
	B := c.vc().B
	for _, g := range conj {
		if g.Op == "bin" && len(g.Args) == 2 {
			l, r := g.Args[0], g.Args[1]
			isK := func(x *Expr) bool { return x.Op == "name" && x.Name == k }
			var bound *Expr
			kind := ""
			switch {
			case isK(r) && !mentions(l) && (g.Name == "<=" || g.Name == "<"):
				bound, kind = l, "lo"+g.Name
			case isK(l) && !mentions(r) && (g.Name == ">=" || g.Name == ">"):
				bound, kind = r, "lo"+map[string]string{">=": "<=", ">": "<"}[g.Name]
			case isK(l) && !mentions(r) && (g.Name == "<" || g.Name == "<="):
				bound, kind = r, "hi"+g.Name
			case isK(r) && !mentions(l) && (g.Name == ">" || g.Name == ">="):
				bound, kind = l, "hi"+map[string]string{">": "<", ">=": "<="}[g.Name]
			}
			if bound != nil {
				t, err := c.evalIntSafe(bound)
				if err == nil && t.IsConst() {
					v := new(big.Int).Set(t.ival)
					switch kind {
					case "lo<=":
						lo = v
					case "lo<":
						lo = v.Add(v, big.NewInt(1))
					case "hi<":
						hi = v
					case "hi<=":
						hi = v.Add(v, big.NewInt(1))
					}
					continue
				}
			}
		}
		others = append(others, g)
	}
	if lo == nil || hi == nil {
		return nil, false
	}
	n := new(big.Int).Sub(hi, lo)
	if n.Sign() <= 0 {
		return B.Bool(e.Op == "forall"), true
	}
	if !n.IsInt64() || n.Int64() > 64 {
		return nil, false
	}
	var parts []*Term
	for i := int64(0); i < n.Int64(); i++ {
		sub := *c
		sub.names = map[string]CV{}
		for kk, v := range c.names {
			sub.names[kk] = v
		}
		sub.bound = map[string]*Term{}
		for kk, v := range c.bound {
			sub.bound[kk] = v
		}
		delete(sub.bound, k)
		sub.names[k] = CV{VT{B.Big(new(big.Int).Add(lo, big.NewInt(i)))}, nil}
		sub.forceNames = true
		g := B.True()
		for _, o := range others {
			g = B.And(g, sub.evalBool(o))
		}
		b := sub.evalBool(rest)
		if e.Op == "forall" {
			parts = append(parts, B.Implies(g, b))
		} else {
			parts = append(parts, B.And(g, b))
		}
	}
	if e.Op == "forall" {
		return B.And(parts...), true
	}
	return B.Or(parts...), true
}

func exprMentions(x *Expr, name string) bool {
	if x == nil {
		return false
	}
	if x.Op == "name" && x.Name == name {
		return true
	}
	for _, a := range x.Args {
		if exprMentions(a, name) {
			return true
		}
	}
	return false
}

// qualifyFieldKey turns "intDecoder.op" into the Burstall key of that field in the function's package.
func (vc *VC) qualifyFieldKey(f *Frame, name string) string {
	parts := strings.SplitN(name, ".", 2)
	if len(parts) == 2 && f.fn.Pkg != nil {
		if tn, ok := f.fn.Pkg.Members[parts[0]].(*ssa.Type); ok {
			if s, ok := tn.Type().Underlying().(*types.Struct); ok {
				for i := 0; i < s.NumFields(); i++ {
					if s.Field(i).Name() == parts[1] {
						return fieldKey(tn.Type(), i)
					}
				}
			}
		}
	}
	evalFail("unknown field %q", name)
	return ""
}

func collectTerms(v Value, out *[]*Term) {
	switch x := v.(type) {
	case VT:
		*out = append(*out, x.T)
	case VSlice:
		*out = append(*out, x.Ptr, x.Len, x.Cap)
	case VString:
		*out = append(*out, x.Ptr, x.Len)
	case VIface:
		*out = append(*out, x.Typ, x.Data)
	case VPtr:
		if x.Addr != nil {
			*out = append(*out, x.Addr)
		}
	case VTuple:
		for _, e := range x.Elems {
			collectTerms(e, out)
		}
	}
}

// mentionsPoolEntry: the term contains an entry-epoch heap symbol of a struct class that the
// contract set declares as pooled (RuntimeContext.*, Option.*).
func mentionsPoolEntry(vc *VC, t *Term) bool {
	seen := map[*Term]bool{}
	var walk func(t *Term) bool
	walk = func(t *Term) bool {
		if seen[t] {
			return false
		}
		seen[t] = true
		if t.op == "var" && !vc.cleanVars[t] && !strings.HasSuffix(t.name, ".RuntimeContext.Option") && (strings.Contains(t.name, ".RuntimeContext.") || strings.Contains(t.name, ".Option.")) {
			// entry contents (any epoch) and loop-havocked contents of a pooled struct class are
			// tainted; values written by a callee under contract (cv_) are not
			if (strings.HasPrefix(t.name, "H") && strings.Contains(t.name, "_F_")) || strings.HasPrefix(t.name, "hv_F_") {
				if os.Getenv("GOVC_DBGPOOL") != "" {
					fmt.Fprintln(os.Stderr, "poolfree: tainted by", t.name)
				}
				return true
			}
		}
		for i, a := range t.args {
			if (t.op == "select" || t.op == "store") && i == 1 {
				continue // which cell is accessed may depend on the pooled object's address; its value does not
			}
			if walk(a) {
				return true
			}
		}
		return false
	}
	return walk(t)
}

// markClean: loop-havoc symbols in t are declared independent of pooled contents.
func markClean(vc *VC, t *Term) {
	seen := map[*Term]bool{}
	var walk func(t *Term)
	walk = func(t *Term) {
		if seen[t] {
			return
		}
		seen[t] = true
		if t.op == "var" && (strings.HasPrefix(t.name, "hv_F_") || (strings.HasPrefix(t.name, "H") && strings.Contains(t.name, "_F_"))) {
			vc.cleanVars[t] = true
		}
		for i, a := range t.args {
			if (t.op == "select" || t.op == "store") && i == 1 {
				continue
			}
			walk(a)
		}
	}
	walk(t)
}
