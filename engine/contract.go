package main

// Contract files: comment-only Go files named zz_verif_contracts.go guarded by
// //go:build verif, containing //@ lines. Grammar (one clause per line, a
// trailing backslash continues the clause on the next //@ line):
//
//	//@ spec name(a, b) := expr               macro, expanded at use
//	//@ ufun name(Int, Int) Int|Bool           uninterpreted function
//	//@ axiom expr                             assumed fact (listed in the evidence)
//	//@ func (*T).name(p1, p2) (r1, r2)        start of a function contract
//	//@   props C16 C04
//	//@   requires expr
//	//@   ensures expr        |  ensures[C05] expr
//	//@   assigns nothing | M | T.f | cell x ...
//	//@   loop N: invariant expr | unroll K | decreases expr
//	//@   split expr in lo..hi
//	//@   trusted <reason>                     contract assumed, body not verified
//	//@   inline                               callers execute the body

import (
	"fmt"
	"os"
	"path/filepath"
	"strconv"
	"strings"
	"unicode"
)

type Expr struct {
	Op   string // "int","bool","name","call","index","slice","field","un","bin","ite","forall","exists","old","nil"
	Name string
	Int  string
	Args []*Expr
	Vars []string
	Pos  string
}

func (e *Expr) String() string {
	if e == nil {
		return "<nil>"
	}
	switch e.Op {
	case "int":
		return e.Int
	case "bool", "name", "nil":
		return e.Name
	case "call":
		var as []string
		for _, a := range e.Args {
			as = append(as, a.String())
		}
		return e.Name + "(" + strings.Join(as, ", ") + ")"
	case "index":
		return e.Args[0].String() + "[" + e.Args[1].String() + "]"
	case "slice":
		s := func(x *Expr) string {
			if x == nil {
				return ""
			}
			return x.String()
		}
		return e.Args[0].String() + "[" + s(e.Args[1]) + ":" + s(e.Args[2]) + "]"
	case "field":
		return e.Args[0].String() + "." + e.Name
	case "un":
		return e.Name + e.Args[0].String()
	case "bin":
		return "(" + e.Args[0].String() + " " + e.Name + " " + e.Args[1].String() + ")"
	case "ite":
		return "(" + e.Args[0].String() + " ? " + e.Args[1].String() + " : " + e.Args[2].String() + ")"
	case "forall", "exists":
		return "(" + e.Op + " " + strings.Join(e.Vars, ", ") + " :: " + e.Args[0].String() + ")"
	case "old":
		return "old(" + e.Args[0].String() + ")"
	}
	return "?"
}

type Clause struct {
	Kind  string // requires, ensures, invariant, decreases, assert
	Props []string
	E     *Expr
	Text  string
	Loop  int
	Pos   string
}

type LoopSpec struct {
	N          int
	Unroll     int
	Invariants []*Clause
	Decreases  *Clause
	Houdini    bool
	Lets       []*SpecMacro // names bound to values at the loop head (visible in the body and in inner loops)
	SplitExit  bool // code after an unrolled loop is analysed separately per exit iteration
}

type SplitSpec struct {
	E      *Expr
	Lo, Hi int64
	Text   string
}

type SpecMacro struct {
	Name   string
	Params []string
	Body   *Expr
}

// TableLemma: a property of every entry of a read-only global table, proved by
// evaluating it on the table extracted from the source, then used at each load.
type TableLemma struct {
	Pkg, Table string
	Idx, Val   string
	E          *Expr
	Text, Pos  string
	Props      []string
}

// WritersClause: the only functions allowed to store to a package-level variable (or its elements).
type WritersClause struct {
	Pkg, Global string
	Funcs       []string
	Props       []string
	Pos         string
}

type UFun struct {
	Name   string
	Params []Sort
	Ret    Sort
}

type Contract struct {
	Pkg      string
	Target   string // as written, e.g. "(*intDecoder).parseInt"
	Key      string // pkg-qualified, e.g. "decoder.(*intDecoder).parseInt"
	Params   []string
	Results  []string
	Props    []string
	Requires []*Clause
	Ensures  []*Clause
	Assigns  []string
	HasAssigns bool
	Loops    map[int]*LoopSpec
	Splits   []*SplitSpec
	Trusted  string
	Inline   bool
	Swar     []string // escape tables for which the SWAR mask lemma is proved and used
	IsFuncType bool
	Measure  *Clause // termination measure for (mutually) recursive functions
	Implements string // this function is a value of the named function type: verified against that contract too
	Reads    []string
	HasReads bool
	AlsoTags []string // additional build-tag sets under which the function is verified as well (e.g. race)
	NoMerge  bool // path-sensitive execution: states are not merged at joins (small functions only)
	Safety   bool // generate run-time-check obligations (default true)
	Pos      string
	Lets     []*SpecMacro
	Unfolds  []*Clause
	CallAsserts map[string][]*Clause // obligations stated at a call site, over the caller's variables
	PostAssumes map[string][]*Clause // assumptions in force right after a call returns
	CallAssumes map[string][]*Clause // assumptions stated at a call site (listed in the evidence)
	Lemmas   []*Clause // pure statements over the parameters (universally quantified: the preconditions are NOT assumed), proved at function entry
	Defs     []*Clause // definitional axioms of uninterpreted spec functions (primitive recursion over the entry memory), function-scoped
	AssumeCalls map[string]string // callee -> reason: its preconditions are not checked at calls from this function (listed as assumptions)
	GhostParams []string // ghost parameters: universally quantified in the callee's proof, supplied by callers with 'callghost'
	CallGhosts map[string]map[string]*Clause // callee -> ghost parameter -> expression over the caller's variables at the call
	Ghosts   []*SpecMacro // ghost results: name := expression over the function's variables at its returns
}

type ContractSet struct {
	Funcs   map[string]*Contract
	Order   []string
	Macros  map[string]*SpecMacro
	UFuns   map[string]*UFun
	Axioms  []*Clause
	TableLemmas []*TableLemma
	Writers []*WritersClause
	Files   []string
	NClause int
}

// macro looks a spec up in the given package, then among the package-independent specs.
func (cs *ContractSet) macro(pkg, name string) (*SpecMacro, bool) {
	if m, ok := cs.Macros[pkg+"."+name]; ok {
		return m, true
	}
	m, ok := cs.Macros["."+name]
	return m, ok
}

func (c *Contract) hasProp(p string) bool {
	for _, q := range c.Props {
		if q == p {
			return true
		}
	}
	return false
}

func clauseHasProp(cl *Clause, c *Contract, p string) bool {
	if len(cl.Props) == 0 {
		return c.hasProp(p)
	}
	for _, q := range cl.Props {
		if q == p {
			return true
		}
	}
	return false
}

var contractDirs = map[string]string{
	".":                                 "json",
	"internal/decoder":                  "decoder",
	"internal/encoder":                  "encoder",
	"internal/encoder/vm":               "vm",
	"internal/encoder/vm_indent":        "vm_indent",
	"internal/encoder/vm_color":         "vm_color",
	"internal/encoder/vm_color_indent":  "vm_color_indent",
	"internal/runtime":                  "runtime",
}

func loadContracts() (*ContractSet, error) {
	cs := &ContractSet{Funcs: map[string]*Contract{}, Macros: map[string]*SpecMacro{}, UFuns: map[string]*UFun{}}
	for _, dir := range sortedKeys(contractDirs) {
		pkg := contractDirs[dir]
		matches, _ := filepath.Glob(filepath.Join(repoDir, dir, "zz_verif_*.go"))
		for _, f := range matches {
			if err := cs.parseFile(f, pkg); err != nil {
				return nil, err
			}
			cs.Files = append(cs.Files, f)
		}
	}
	// shared specs that are not tied to a package
	extra, _ := filepath.Glob("/verif/specs/*.spec")
	for _, f := range extra {
		if err := cs.parseFile(f, ""); err != nil {
			return nil, err
		}
		cs.Files = append(cs.Files, f)
	}
	return cs, nil
}

func (cs *ContractSet) parseFile(path, pkg string) error {
	data, err := os.ReadFile(path)
	if err != nil {
		return err
	}
	lines := strings.Split(string(data), "\n")
	var cur *Contract
	var pending string
	var pendingLine int
	for i, raw := range lines {
		l := strings.TrimSpace(raw)
		var body string
		switch {
		case strings.HasPrefix(l, "//@"):
			body = l[3:]
		case strings.HasPrefix(l, "// @"):
			body = l[4:]
		default:
			if strings.HasSuffix(path, ".spec") && l != "" && !strings.HasPrefix(l, "#") && !strings.HasPrefix(l, "//") {
				body = l
			} else {
				continue
			}
		}
		// strip trailing comment introduced by " //"
		if j := strings.Index(body, " //"); j >= 0 {
			body = body[:j]
		}
		body = strings.TrimSpace(body)
		if body == "" {
			continue
		}
		if pending != "" {
			body = pending + " " + body
		} else {
			pendingLine = i + 1
		}
		if strings.HasSuffix(body, "\\") {
			pending = strings.TrimSuffix(body, "\\")
			continue
		}
		pending = ""
		pos := fmt.Sprintf("%s:%d", path, pendingLine)
		if err := cs.parseClause(body, pos, pkg, &cur); err != nil {
			return fmt.Errorf("%s: %v", pos, err)
		}
	}
	return nil
}

func splitProps(s string) (props []string, rest string) {
	// ensures[C05,C06] expr
	if strings.HasPrefix(s, "[") {
		j := strings.Index(s, "]")
		for _, p := range strings.FieldsFunc(s[1:j], func(r rune) bool { return r == ',' || r == ' ' }) {
			props = append(props, p)
		}
		return props, strings.TrimSpace(s[j+1:])
	}
	return nil, strings.TrimSpace(s)
}

func (cs *ContractSet) parseClause(body, pos, pkg string, cur **Contract) error {
	word := body
	rest := ""
	for i, r := range body {
		if r == ' ' || r == '[' || r == '\t' {
			word, rest = body[:i], body[i:]
			break
		}
	}
	rest = strings.TrimSpace(rest)
	switch word {
	case "spec":
		j := strings.Index(rest, ":=")
		if j < 0 {
			return fmt.Errorf("spec without :=")
		}
		head, def := strings.TrimSpace(rest[:j]), strings.TrimSpace(rest[j+2:])
		name, params, err := parseHeadList(head)
		if err != nil {
			return err
		}
		e, err := parseExpr(def, pos)
		if err != nil {
			return err
		}
		cs.Macros[pkg+"."+name] = &SpecMacro{Name: name, Params: params, Body: e}
		return nil
	case "ufun":
		name, params, err := parseHeadList(strings.TrimSpace(rest[:strings.LastIndex(rest, ")")+1]))
		if err != nil {
			return err
		}
		ret := strings.TrimSpace(rest[strings.LastIndex(rest, ")")+1:])
		u := &UFun{Name: name, Ret: sortByName(ret)}
		for _, p := range params {
			u.Params = append(u.Params, sortByName(p))
		}
		cs.UFuns[name] = u
		return nil
	case "writers":
		props, r := splitProps(rest)
		j := strings.Index(r, ":")
		if j < 0 {
			return fmt.Errorf("writers without ':'")
		}
		w := &WritersClause{Pkg: pkg, Global: strings.TrimSpace(r[:j]), Props: props, Pos: pos}
		for _, f := range strings.Split(r[j+1:], ",") {
			if f = strings.TrimSpace(f); f != "" {
				w.Funcs = append(w.Funcs, f)
			}
		}
		cs.Writers = append(cs.Writers, w)
		return nil
	case "tablelemma":
		props, r := splitProps(rest)
		j := strings.Index(r, ":=")
		if j < 0 {
			return fmt.Errorf("tablelemma without :=")
		}
		name, params, err := parseHeadList(strings.TrimSpace(r[:j]))
		if err != nil || len(params) != 2 {
			return fmt.Errorf("tablelemma head must be name(index, value)")
		}
		e, err := parseExpr(strings.TrimSpace(r[j+2:]), pos)
		if err != nil {
			return err
		}
		cs.TableLemmas = append(cs.TableLemmas, &TableLemma{Pkg: pkg, Table: name, Idx: params[0], Val: params[1], E: e, Text: strings.TrimSpace(r[j+2:]), Pos: pos, Props: props})
		return nil
	case "axiom":
		props, r := splitProps(rest)
		e, err := parseExpr(r, pos)
		if err != nil {
			return err
		}
		cs.Axioms = append(cs.Axioms, &Clause{Kind: "axiom", Props: props, E: e, Text: r, Pos: pos})
		return nil
	case "functype":
		// contract of every value of a named function type: functype Name(params)
		name, params, err := parseHeadList(rest)
		if err != nil {
			return err
		}
		c := &Contract{Pkg: pkg, Loops: map[int]*LoopSpec{}, Safety: true, Pos: pos, Target: name, Key: "functype:" + pkg + "." + name, Params: params, IsFuncType: true}
		cs.Funcs[c.Key] = c
		cs.Order = append(cs.Order, c.Key)
		*cur = c
		return nil
	case "func":
		c := &Contract{Pkg: pkg, Loops: map[int]*LoopSpec{}, Safety: true, Pos: pos}
		// "(*T).name(p1, p2) (r1, r2)"  or "name(p) (r)"
		k := strings.LastIndex(rest, ") (")
		sig := rest
		if k >= 0 {
			sig = rest[:k+1]
			res := strings.Trim(rest[k+2:], "() ")
			for _, r := range strings.Split(res, ",") {
				if r = strings.TrimSpace(r); r != "" {
					c.Results = append(c.Results, r)
				}
			}
		}
		open := strings.LastIndex(sig, "(")
		if open < 0 || !strings.HasSuffix(sig, ")") {
			return fmt.Errorf("bad func header %q", rest)
		}
		c.Target = strings.TrimSpace(sig[:open])
		for _, p := range strings.Split(sig[open+1:len(sig)-1], ",") {
			if p = strings.TrimSpace(p); p != "" {
				c.Params = append(c.Params, p)
			}
		}
		c.Key = c.Target
		if !strings.Contains(strings.TrimLeft(c.Target, "(*"), ".") || strings.HasPrefix(c.Target, "(") {
			c.Key = pkg + "." + c.Target
		} else {
			// "Iface.Method" (interface contract of this package) versus "pkg.Func"
			isPkg := false
			for _, short := range contractDirs {
				if strings.HasPrefix(c.Target, short+".") {
					isPkg = true
				}
			}
			if !isPkg && strings.Count(c.Target, ".") < 2 {
				c.Key = pkg + "." + c.Target
			}
			// "pkg.Iface.Method": an interface of another package (e.g. io.Reader.Read), key as written
		}
		if _, dup := cs.Funcs[c.Key]; dup {
			return fmt.Errorf("duplicate contract for %s", c.Key)
		}
		cs.Funcs[c.Key] = c
		cs.Order = append(cs.Order, c.Key)
		*cur = c
		return nil
	}
	c := *cur
	if c == nil {
		return fmt.Errorf("clause %q outside a func block", word)
	}
	switch word {
	case "props":
		c.Props = append(c.Props, strings.Fields(rest)...)
	case "requires", "ensures":
		props, r := splitProps(rest)
		e, err := parseExpr(r, pos)
		if err != nil {
			return err
		}
		cl := &Clause{Kind: word, Props: props, E: e, Text: r, Pos: pos}
		if word == "requires" {
			c.Requires = append(c.Requires, cl)
		} else {
			c.Ensures = append(c.Ensures, cl)
		}
		cs.NClause++
	case "let":
		j := strings.Index(rest, ":=")
		if j < 0 {
			return fmt.Errorf("let without :=")
		}
		e, err := parseExpr(strings.TrimSpace(rest[j+2:]), pos)
		if err != nil {
			return err
		}
		c.Lets = append(c.Lets, &SpecMacro{Name: strings.TrimSpace(rest[:j]), Body: e})
	case "callassert":
		props, r := splitProps(rest)
		j := strings.Index(r, ":")
		if j < 0 {
			return fmt.Errorf("callassert without ':'")
		}
		e, err := parseExpr(strings.TrimSpace(r[j+1:]), pos)
		if err != nil {
			return err
		}
		if c.CallAsserts == nil {
			c.CallAsserts = map[string][]*Clause{}
		}
		name := strings.TrimSpace(r[:j])
		c.CallAsserts[name] = append(c.CallAsserts[name], &Clause{Kind: "callassert", Props: props, E: e, Text: strings.TrimSpace(r[j+1:]), Pos: pos})
		cs.NClause++
	case "postassume":
		j := strings.Index(rest, ":")
		if j < 0 {
			return fmt.Errorf("postassume without ':'")
		}
		e, err := parseExpr(strings.TrimSpace(rest[j+1:]), pos)
		if err != nil {
			return err
		}
		if c.PostAssumes == nil {
			c.PostAssumes = map[string][]*Clause{}
		}
		name := strings.TrimSpace(rest[:j])
		c.PostAssumes[name] = append(c.PostAssumes[name], &Clause{Kind: "postassume", E: e, Text: strings.TrimSpace(rest[j+1:]), Pos: pos})
	case "lemma":
		// lemma[props] name: expr  -- valid for every value of the parameters; the function body and its requires play no part
		props, r := splitProps(rest)
		j := strings.Index(r, ":")
		if j < 0 {
			return fmt.Errorf("lemma needs 'name: expr'")
		}
		e, err := parseExpr(strings.TrimSpace(r[j+1:]), pos)
		if err != nil {
			return err
		}
		c.Lemmas = append(c.Lemmas, &Clause{Kind: "lemma:" + strings.TrimSpace(r[:j]), Props: props, E: e, Text: strings.TrimSpace(r[j+1:]), Pos: pos})
		cs.NClause++
	case "define":
		// define <expr>: a defining equation of an uninterpreted spec function, in force in this function's proof only
		e, err := parseExpr(rest, pos)
		if err != nil {
			return err
		}
		c.Defs = append(c.Defs, &Clause{Kind: "define", E: e, Text: rest, Pos: pos})
	case "assumecalls":
		// assumecalls f g h: reason   -- preconditions of these callees are assumed, not proved, at calls from this function
		j := strings.Index(rest, ":")
		if j < 0 {
			return fmt.Errorf("assumecalls needs ': reason'")
		}
		if c.AssumeCalls == nil {
			c.AssumeCalls = map[string]string{}
		}
		for _, n := range strings.Fields(rest[:j]) {
			c.AssumeCalls[n] = strings.TrimSpace(rest[j+1:])
		}
	case "ghostparam":
		c.GhostParams = append(c.GhostParams, strings.Fields(rest)...)
	case "callghost":
		// callghost <callee>: name := expr   -- value of the callee's ghost parameter at calls from this function
		j := strings.Index(rest, ":")
		k := strings.Index(rest, ":=")
		if j < 0 || k < 0 || k <= j {
			return fmt.Errorf("callghost needs '<callee>: name := expr'")
		}
		e, err := parseExpr(strings.TrimSpace(rest[k+2:]), pos)
		if err != nil {
			return err
		}
		if c.CallGhosts == nil {
			c.CallGhosts = map[string]map[string]*Clause{}
		}
		name := strings.TrimSpace(rest[:j])
		if c.CallGhosts[name] == nil {
			c.CallGhosts[name] = map[string]*Clause{}
		}
		c.CallGhosts[name][strings.TrimSpace(rest[j+1:k])] = &Clause{Kind: "callghost", E: e, Text: strings.TrimSpace(rest[j+1:]), Pos: pos}
	case "callassume":
		// callassume <callee>: expr   -- an assumption (not proved) in force at calls to <callee>
		j := strings.Index(rest, ":")
		if j < 0 {
			return fmt.Errorf("callassume without ':'")
		}
		e, err := parseExpr(strings.TrimSpace(rest[j+1:]), pos)
		if err != nil {
			return err
		}
		if c.CallAssumes == nil {
			c.CallAssumes = map[string][]*Clause{}
		}
		name := strings.TrimSpace(rest[:j])
		c.CallAssumes[name] = append(c.CallAssumes[name], &Clause{Kind: "callassume", E: e, Text: strings.TrimSpace(rest[j+1:]), Pos: pos})
	case "ghost":
		j := strings.Index(rest, ":=")
		if j < 0 {
			return fmt.Errorf("ghost without :=")
		}
		e, err := parseExpr(strings.TrimSpace(rest[j+2:]), pos)
		if err != nil {
			return err
		}
		c.Ghosts = append(c.Ghosts, &SpecMacro{Name: strings.TrimSpace(rest[:j]), Body: e})
	case "assigns":
		c.HasAssigns = true
		for _, a := range strings.Split(rest, ",") {
			if a = strings.TrimSpace(a); a != "" && a != "nothing" {
				c.Assigns = append(c.Assigns, a)
			}
		}
	case "trusted":
		c.Trusted = rest
		if c.Trusted == "" {
			c.Trusted = "assumed"
		}
	case "inline":
		c.Inline = true
	case "nomerge":
		c.NoMerge = true
	case "swar":
		c.Swar = append(c.Swar, strings.Fields(rest)...)
	case "measure":
		e, err := parseExpr(rest, pos)
		if err != nil {
			return err
		}
		c.Measure = &Clause{Kind: "measure", E: e, Text: rest, Pos: pos}
		cs.NClause++
	case "implements":
		c.Implements = strings.TrimSpace(rest)
	case "reads":
		c.HasReads = true
		for _, a := range strings.Split(rest, ",") {
			if a = strings.TrimSpace(a); a != "" && a != "nothing" {
				c.Reads = append(c.Reads, a)
			}
		}
	case "alsotags":
		c.AlsoTags = append(c.AlsoTags, strings.Fields(rest)...)
	case "nosafety":
		c.Safety = false
	case "split":
		j := strings.LastIndex(rest, " in ")
		if j < 0 {
			return fmt.Errorf("split without in")
		}
		e, err := parseExpr(strings.TrimSpace(rest[:j]), pos)
		if err != nil {
			return err
		}
		rng := strings.Split(strings.TrimSpace(rest[j+4:]), "..")
		if len(rng) != 2 {
			return fmt.Errorf("split range")
		}
		lo, err1 := strconv.ParseInt(strings.TrimSpace(rng[0]), 10, 64)
		hi, err2 := strconv.ParseInt(strings.TrimSpace(rng[1]), 10, 64)
		if err1 != nil || err2 != nil {
			return fmt.Errorf("split range")
		}
		c.Splits = append(c.Splits, &SplitSpec{E: e, Lo: lo, Hi: hi, Text: rest})
	case "loop":
		j := strings.Index(rest, ":")
		if j < 0 {
			return fmt.Errorf("loop without ':'")
		}
		n, err := strconv.Atoi(strings.TrimSpace(rest[:j]))
		if err != nil {
			return fmt.Errorf("loop ordinal: %v", err)
		}
		ls := c.Loops[n]
		if ls == nil {
			ls = &LoopSpec{N: n}
			c.Loops[n] = ls
		}
		spec := strings.TrimSpace(rest[j+1:])
		w2 := spec
		r2 := ""
		for i, r := range spec {
			if r == ' ' || r == '[' {
				w2, r2 = spec[:i], strings.TrimSpace(spec[i:])
				break
			}
		}
		switch w2 {
		case "unroll":
			if strings.HasSuffix(r2, " split") {
				ls.SplitExit = true
				r2 = strings.TrimSpace(strings.TrimSuffix(r2, " split"))
			}
			k, err := strconv.Atoi(r2)
			if err != nil {
				return err
			}
			ls.Unroll = k
		case "houdini":
			ls.Houdini = true
		case "let":
			j := strings.Index(r2, ":=")
			if j < 0 {
				return fmt.Errorf("loop let without :=")
			}
			e, err := parseExpr(strings.TrimSpace(r2[j+2:]), pos)
			if err != nil {
				return err
			}
			ls.Lets = append(ls.Lets, &SpecMacro{Name: strings.TrimSpace(r2[:j]), Body: e})
		case "invariant", "decreases":
			props, r := splitProps(r2)
			e, err := parseExpr(r, pos)
			if err != nil {
				return err
			}
			cl := &Clause{Kind: w2, Props: props, E: e, Text: r, Loop: n, Pos: pos}
			if w2 == "invariant" {
				ls.Invariants = append(ls.Invariants, cl)
			} else {
				ls.Decreases = cl
			}
			cs.NClause++
		default:
			return fmt.Errorf("unknown loop clause %q", w2)
		}
	default:
		return fmt.Errorf("unknown clause %q", word)
	}
	return nil
}

func sortByName(s string) Sort {
	switch strings.TrimSpace(s) {
	case "Bool":
		return SBool
	case "Int":
		return SInt
	case "ArrII":
		return SArrII
	}
	panic("unknown sort " + s)
}

func parseHeadList(head string) (string, []string, error) {
	open := strings.Index(head, "(")
	if open < 0 {
		return strings.TrimSpace(head), nil, nil
	}
	if !strings.HasSuffix(head, ")") {
		return "", nil, fmt.Errorf("bad head %q", head)
	}
	var ps []string
	for _, p := range strings.Split(head[open+1:len(head)-1], ",") {
		if p = strings.TrimSpace(p); p != "" {
			ps = append(ps, p)
		}
	}
	return strings.TrimSpace(head[:open]), ps, nil
}

// ------------------------------------------------------------- expression parser

type lexer struct {
	toks []string
	pos  int
	src  string
	at   string
}

func lex(s string) ([]string, error) {
	var toks []string
	i := 0
	for i < len(s) {
		c := rune(s[i])
		switch {
		case unicode.IsSpace(c):
			i++
		case unicode.IsLetter(c) || c == '_':
			j := i
			for j < len(s) && (unicode.IsLetter(rune(s[j])) || unicode.IsDigit(rune(s[j])) || s[j] == '_' || s[j] == '$') {
				j++
			}
			toks = append(toks, s[i:j])
			i = j
		case unicode.IsDigit(c):
			j := i
			for j < len(s) && (unicode.IsDigit(rune(s[j])) || unicode.IsLetter(rune(s[j])) || s[j] == '_') {
				j++
			}
			toks = append(toks, s[i:j])
			i = j
		case c == '\'':
			// character literal
			j := i + 1
			if j < len(s) && s[j] == '\\' {
				j++
			}
			j++
			if j >= len(s) || s[j] != '\'' {
				return nil, fmt.Errorf("bad char literal at %d in %q", i, s)
			}
			toks = append(toks, s[i:j+1])
			i = j + 1
		case c == '"':
			j := i + 1
			for j < len(s) && s[j] != '"' {
				if s[j] == '\\' {
					j++
				}
				j++
			}
			if j >= len(s) {
				return nil, fmt.Errorf("unterminated string in %q", s)
			}
			toks = append(toks, s[i:j+1])
			i = j + 1
		default:
			for _, op := range []string{"<==>", "==>", "::", "&&", "||", "==", "!=", "<=", ">=", "<<", ">>", ".."} {
				if strings.HasPrefix(s[i:], op) {
					toks = append(toks, op)
					i += len(op)
					goto next
				}
			}
			toks = append(toks, string(c))
			i++
		next:
		}
	}
	return toks, nil
}

func parseExpr(s, pos string) (*Expr, error) {
	toks, err := lex(s)
	if err != nil {
		return nil, err
	}
	p := &lexer{toks: toks, src: s, at: pos}
	var e *Expr
	func() {
		defer func() {
			if r := recover(); r != nil {
				if pe, ok := r.(parseErr); ok {
					err = fmt.Errorf("%s in %q", string(pe), s)
					return
				}
				panic(r)
			}
		}()
		e = p.parseImpl()
		if p.pos < len(p.toks) {
			panic(parseErr(fmt.Sprintf("unexpected %q", p.toks[p.pos])))
		}
	}()
	return e, err
}

type parseErr string

func (p *lexer) peek() string {
	if p.pos < len(p.toks) {
		return p.toks[p.pos]
	}
	return ""
}
func (p *lexer) next() string { t := p.peek(); p.pos++; return t }
func (p *lexer) expect(t string) {
	if p.peek() != t {
		panic(parseErr(fmt.Sprintf("expected %q, found %q", t, p.peek())))
	}
	p.pos++
}

func (p *lexer) parseImpl() *Expr {
	if t := p.peek(); t == "forall" || t == "exists" {
		p.next()
		var vars []string
		for {
			vars = append(vars, p.next())
			if p.peek() == "," {
				p.next()
				continue
			}
			break
		}
		p.expect("::")
		body := p.parseImpl()
		return &Expr{Op: t, Vars: vars, Args: []*Expr{body}, Pos: p.at}
	}
	l := p.parseTernary()
	switch p.peek() {
	case "==>":
		p.next()
		r := p.parseImpl()
		return &Expr{Op: "bin", Name: "==>", Args: []*Expr{l, r}, Pos: p.at}
	case "<==>":
		p.next()
		r := p.parseImpl()
		return &Expr{Op: "bin", Name: "<==>", Args: []*Expr{l, r}, Pos: p.at}
	}
	return l
}

func (p *lexer) parseTernary() *Expr {
	c := p.parseBin(0)
	if p.peek() == "?" {
		p.next()
		a := p.parseTernary()
		p.expect(":")
		b := p.parseTernary()
		return &Expr{Op: "ite", Args: []*Expr{c, a, b}, Pos: p.at}
	}
	return c
}

var binLevels = [][]string{
	{"||"},
	{"&&"},
	{"==", "!=", "<", "<=", ">", ">="},
	{"+", "-", "|", "^"},
	{"*", "/", "%", "<<", ">>", "&"},
}

func (p *lexer) parseBin(level int) *Expr {
	if level == len(binLevels) {
		return p.parseUnary()
	}
	l := p.parseBin(level + 1)
	for {
		t := p.peek()
		found := false
		for _, op := range binLevels[level] {
			if t == op {
				found = true
			}
		}
		if !found {
			return l
		}
		p.next()
		var r *Expr
		if t == "||" || t == "&&" {
			// allow a quantifier as the right operand: a && forall k :: ...
			if q := p.peek(); q == "forall" || q == "exists" {
				r = p.parseImpl()
			}
		}
		if r == nil {
			r = p.parseBin(level + 1)
		}
		l = &Expr{Op: "bin", Name: t, Args: []*Expr{l, r}, Pos: p.at}
	}
}

func (p *lexer) parseUnary() *Expr {
	switch p.peek() {
	case "!", "-":
		op := p.next()
		x := p.parseUnary()
		return &Expr{Op: "un", Name: op, Args: []*Expr{x}, Pos: p.at}
	}
	return p.parsePostfix()
}

func (p *lexer) parsePostfix() *Expr {
	x := p.parsePrimary()
	for {
		switch p.peek() {
		case "[":
			p.next()
			var lo, hi *Expr
			if p.peek() != ":" {
				lo = p.parseImpl()
			}
			if p.peek() == ":" {
				p.next()
				if p.peek() != "]" {
					hi = p.parseImpl()
				}
				p.expect("]")
				x = &Expr{Op: "slice", Args: []*Expr{x, lo, hi}, Pos: p.at}
			} else {
				p.expect("]")
				x = &Expr{Op: "index", Args: []*Expr{x, lo}, Pos: p.at}
			}
		case ".":
			p.next()
			x = &Expr{Op: "field", Name: p.next(), Args: []*Expr{x}, Pos: p.at}
		default:
			return x
		}
	}
}

func (p *lexer) parsePrimary() *Expr {
	t := p.next()
	switch {
	case t == "":
		panic(parseErr("unexpected end of expression"))
	case t == "(":
		e := p.parseImpl()
		p.expect(")")
		return e
	case t == "true" || t == "false":
		return &Expr{Op: "bool", Name: t, Pos: p.at}
	case t == "nil":
		return &Expr{Op: "nil", Name: "nil", Pos: p.at}
	case t[0] == '\'':
		s, err := strconv.Unquote(t)
		if err != nil || len(s) != 1 {
			r, _, _, err2 := strconv.UnquoteChar(t[1:len(t)-1], '\'')
			if err2 != nil {
				panic(parseErr("bad char literal " + t))
			}
			return &Expr{Op: "int", Int: strconv.Itoa(int(r)), Pos: p.at}
		}
		return &Expr{Op: "int", Int: strconv.Itoa(int(s[0])), Pos: p.at}
	case t[0] == '"':
		s, err := strconv.Unquote(t)
		if err != nil {
			panic(parseErr("bad string literal " + t))
		}
		return &Expr{Op: "str", Name: s, Pos: p.at}
	case unicode.IsDigit(rune(t[0])):
		v, err := strconv.ParseUint(strings.ReplaceAll(t, "_", ""), 0, 64)
		if err != nil {
			// big decimal
			for _, r := range t {
				if !unicode.IsDigit(r) {
					panic(parseErr("bad number " + t))
				}
			}
			return &Expr{Op: "int", Int: t, Pos: p.at}
		}
		return &Expr{Op: "int", Int: strconv.FormatUint(v, 10), Pos: p.at}
	case t == "old":
		p.expect("(")
		e := p.parseImpl()
		p.expect(")")
		return &Expr{Op: "old", Args: []*Expr{e}, Pos: p.at}
	case unicode.IsLetter(rune(t[0])) || t[0] == '_':
		if p.peek() == "(" {
			p.next()
			var args []*Expr
			for p.peek() != ")" {
				args = append(args, p.parseImpl())
				if p.peek() == "," {
					p.next()
				}
			}
			p.expect(")")
			return &Expr{Op: "call", Name: t, Args: args, Pos: p.at}
		}
		return &Expr{Op: "name", Name: t, Pos: p.at}
	}
	panic(parseErr("unexpected token " + t))
}
