package main

import (
	"fmt"
	"sync"
	"go/types"
	"strings"

	"golang.org/x/tools/go/ssa"
)

type houdiniCand struct {
	text  string
	build func(c *EvalCtx) *Term
	alive bool
}

func headPhis(b *ssa.BasicBlock) []*ssa.Phi {
	var phis []*ssa.Phi
	for _, in := range b.Instrs {
		if p, ok := in.(*ssa.Phi); ok {
			phis = append(phis, p)
		} else {
			break
		}
	}
	return phis
}

// storeClasses lists the heap classes a store of type t through a pointer with
// Burstall key `key` may write.
func storeClasses(key string, t types.Type, out map[string]bool) {
	if s, ok := t.Underlying().(*types.Struct); ok && key == "" {
		for i := 0; i < s.NumFields(); i++ {
			ft := s.Field(i).Type()
			k := fieldKey(t, i)
			switch ft.Underlying().(type) {
			case *types.Struct, *types.Array:
				k = ""
			}
			storeClasses(k, ft, out)
		}
		return
	}
	if a, ok := t.Underlying().(*types.Array); ok && key == "" {
		storeClasses("", a.Elem(), out)
		return
	}
	var leaves []Leaf
	if err := flatten(t, 0, &leaves); err != nil {
		out["*"] = true
		return
	}
	for _, lf := range leaves {
		cls, isM := leafClass(key, lf)
		if lf.Kind == "bool" && !isM {
			boolClasses.Store(cls, true)
		}
		out[cls] = true
	}
}

// boolClasses: heap classes whose cells are booleans (sort (Array Int Bool)).
var boolClasses sync.Map

// addrRoot traces an address expression to its origin.
func addrRoot(v ssa.Value) (root ssa.Value, key string) {
	for i := 0; i < 12; i++ {
		switch x := v.(type) {
		case *ssa.FieldAddr:
			pt := x.X.Type().Underlying().(*types.Pointer).Elem()
			s := pt.Underlying().(*types.Struct)
			ft := s.Field(x.Field).Type()
			if key == "" {
				switch ft.Underlying().(type) {
				case *types.Struct, *types.Array:
				default:
					key = fieldKey(pt, x.Field)
				}
			}
			v = x.X
		case *ssa.IndexAddr:
			v = x.X
		case *ssa.Convert:
			v = x.X
		case *ssa.ChangeType:
			v = x.X
		default:
			return v, key
		}
	}
	return v, key
}

type modSet struct {
	keys  map[string]bool
	all   bool
	cells map[*ssa.Alloc]bool
	globs map[*ssa.Global]bool
}

func newModSet() *modSet {
	return &modSet{keys: map[string]bool{}, cells: map[*ssa.Alloc]bool{}, globs: map[*ssa.Global]bool{}}
}

// modifiedBy computes a syntactic over-approximation of what the given blocks write.
func (f *Frame) modifiedBy(blocks map[*ssa.BasicBlock]bool, ms *modSet, depth int) {
	vc := f.vc
	for b := range blocks {
		for _, in := range b.Instrs {
			switch x := in.(type) {
			case *ssa.Store:
				root, key := addrRoot(x.Addr)
				switch r := root.(type) {
				case *ssa.Alloc:
					if !allocEscapes(r, map[ssa.Value]bool{}) {
						ms.cells[r] = true
						continue
					}
				case *ssa.Global:
					ms.globs[r] = true
					continue
				}
				// through-pointer store: class by key / type
				if _, isField := x.Addr.(*ssa.FieldAddr); isField {
					storeClasses(key, x.Val.Type(), ms.keys)
				} else {
					storeClasses("", x.Val.Type(), ms.keys)
				}
			case *ssa.Call:
				f.callMods(x.Common(), ms, depth)
			case *ssa.Defer:
				ms.all = true
			case *ssa.MapUpdate:
			}
		}
	}
	_ = vc
}

func (f *Frame) callMods(cc *ssa.CallCommon, ms *modSet, depth int) {
	vc := f.vc
	if cc.IsInvoke() {
		if c := vc.ifaceContract(cc); c != nil && c.HasAssigns {
			f.assignsToClasses(c, nil, ms)
			return
		}
		ms.all = true
		return
	}
	switch callee := cc.Value.(type) {
	case *ssa.Builtin:
		switch callee.Name() {
		case "append", "copy":
			if len(cc.Args) > 0 {
				if s, ok := cc.Args[0].Type().Underlying().(*types.Slice); ok {
					storeClasses("", s.Elem(), ms.keys)
				}
			}
		}
	case *ssa.Function:
		if c := vc.CS.Funcs[funcKey(callee)]; c != nil {
			if c.Inline && depth < 4 && len(callee.Blocks) > 0 {
				sub := map[*ssa.BasicBlock]bool{}
				for _, b := range callee.Blocks {
					sub[b] = true
				}
				inner := newModSet()
				f.modifiedBy(sub, inner, depth+1)
				for k := range inner.keys {
					ms.keys[k] = true
				}
				if inner.all {
					ms.all = true
				}
				for g := range inner.globs {
					ms.globs[g] = true
				}
				return
			}
			f.assignsToClasses(c, callee, ms)
			return
		}
		if ext := lookupExternal(callee); ext != nil {
			if !ext.pure {
				ms.all = true
			}
			for _, k := range ext.writes {
				ms.keys[k] = true
			}
			return
		}
		ms.all = true
	default:
		if nt, ok := cc.Value.Type().(*types.Named); ok {
			if ftc := vc.CS.Funcs["functype:"+pkgShort(nt.Obj().Pkg())+"."+nt.Obj().Name()]; ftc != nil && ftc.HasAssigns {
				f.assignsToClasses(ftc, nil, ms)
				return
			}
		}
		ms.all = true
	}
}

// assignsToClasses turns a contract's assigns clause into heap classes.
func (f *Frame) assignsToClasses(c *Contract, callee *ssa.Function, ms *modSet) {
	for _, a := range c.Assigns {
		f.vc.assignEntryClasses(a, c, ms)
	}
}

func (vc *VC) assignEntryClasses(a string, c *Contract, ms *modSet) {
	switch {
	case a == "all":
		ms.all = true
	case a == "fresh":
		// writes only memory the callee allocates itself: the byte heap changes, but not inside
		// any object the caller knows (stated as a frame fact at the call site)
		ms.keys["M"] = true
	case a == "M" || strings.HasPrefix(a, "M["):
		ms.keys["M"] = true
	case strings.HasPrefix(a, "class "):
		ms.keys[strings.TrimSpace(a[6:])] = true
	case strings.HasPrefix(a, "global "):
		name := strings.TrimSpace(a[7:])
		found := false
		if sp := vc.P.ByPkg[c.Pkg]; sp != nil {
			if g, ok := sp.Members[name].(*ssa.Global); ok {
				ms.globs[g] = true
				found = true
			}
		}
		if !found {
			ms.all = true
		}
	default:
		// "T.f": field of a struct type of the contract's package; "pkg.T.f": of another package
		parts := strings.SplitN(a, ".", 2)
		pkgName := c.Pkg
		if strings.Count(a, ".") == 2 {
			three := strings.SplitN(a, ".", 3)
			pkgName = three[0]
			parts = three[1:]
		}
		if len(parts) == 2 {
			if sp := vc.P.ByPkg[pkgName]; sp != nil {
				if tn, ok := sp.Members[parts[0]].(*ssa.Type); ok {
					if s, ok := tn.Type().Underlying().(*types.Struct); ok {
						for i := 0; i < s.NumFields(); i++ {
							if s.Field(i).Name() == parts[1] {
								ft := s.Field(i).Type()
								k := fieldKey(tn.Type(), i)
								switch ft.Underlying().(type) {
								case *types.Struct, *types.Array:
									k = ""
								}
								storeClasses(k, ft, ms.keys)
								return
							}
						}
					}
				}
			}
		}
		vc.note("assigns entry %q of %s not understood: treated as all", a, c.Key)
		ms.all = true
	}
}

func (f *Frame) applyMods(st *State, ms *modSet) { f.applyModsTagged(st, ms, "hv_") }

// applyModsTagged: tag "cv_" marks values written by a callee under contract (as opposed to
// loop havoc), which poolfree() accepts as not derived from pooled contents.
func (f *Frame) applyModsTagged(st *State, ms *modSet, tag string) {
	vc := f.vc
	if ms.all || ms.keys["*"] {
		vc.havocAll(st, "loop or call with unknown effects in "+f.fn.Name())
	} else {
		for k := range ms.keys {
			st.heap[k] = vc.B.Fresh(tag+shortKey(k), vc.heapSort(k))
		}
	}
	for g := range ms.globs {
		p := vc.globalPtr(g).(VPtr)
		prefix := "G:" + p.Cell.ID + "@"
		// havoc every leaf class of this global
		var leaves []Leaf
		if err := flatten(p.Cell.Typ, 0, &leaves); err == nil {
			for _, lf := range leaves {
				k := fmt.Sprintf("%s%d", prefix, lf.Off)
				if lf.Kind == "bool" {
					vc.sortOf[k] = SArrIB
				}
				vc.havocKey(st, k)
			}
		}
	}
}

func (f *Frame) enterCutLoop(li *loopInfo, live []inEdge) (*State, error) {
	vc := f.vc
	B := vc.B
	b := li.head
	phis := headPhis(b)
	tag := fmt.Sprintf("loop%d", li.ord)
	var invs []*Clause
	if li.spec != nil {
		invs = li.spec.Invariants
	}
	// 1. invariants hold on entry
	for _, e := range live {
		over := map[ssa.Value]Value{}
		pi := predIndex(b, e.from.b)
		for _, p := range phis {
			over[p] = f.lookup(e.st, p.Edges[pi])
		}
		for _, cl := range invs {
			ctx := f.newCtx(e.st, f.entry)
			ctx.at = b
			ctx.override = over
			g, err := ctx.evalBoolSafe(cl.E)
			if err != nil {
				return nil, fmt.Errorf("%s: invariant of loop %d: %v", cl.Pos, li.ord, err)
			}
			f.oblige(e.st, "inv-init", tag, "invariant holds on entry: "+cl.Text, b.Instrs[0].Pos(), g, cl)
		}
		if li.houdini == nil {
			continue
		}
	}
	// 2. merge, havoc what the loop may modify
	var sts []*State
	for _, e := range live {
		sts = append(sts, e.st)
	}
	st := vc.mergeStates(sts).clone()
	li.entry = st.clone()
	ms := newModSet()
	f.modifiedBy(li.body, ms, 0)
	f.applyMods(st, ms)
	for a := range ms.cells {
		c := f.cellOf[a]
		if c == nil {
			continue
		}
		if c.Bytes {
			st.cells[c.ID+"#"] = VT{B.Fresh(c.ID+"_hv", SArrII)}
			continue
		}
		var leaves []Leaf
		if err := flatten(c.Typ, 0, &leaves); err == nil {
			for _, lf := range leaves {
				k := fmt.Sprintf("%s@%d", c.ID, lf.Off)
				if old, ok := st.cells[k]; ok {
					if _, isPtr := old.(VPtr); isPtr {
						vc.note("cell %s holding a provenance pointer is modified in a loop; havocked to an address", c.ID)
					}
				}
				fv := vc.freshValue(c.ID+"_hv", lf.Typ)
				switch lf.Path {
				case "":
					st.cells[k] = fv
				default:
					st.cells[k] = VT{B.Fresh(c.ID+"_hv"+lf.Path, SInt)}
				}
				if lf.Kind == "bool" {
					st.cells[k] = VT{B.Fresh(c.ID+"_hv", SBool)}
				}
			}
			// restore composite invariants (slices inside cells)
			f.cellTypeInv(st, c)
		}
	}
	for _, p := range phis {
		nm := p.Comment
		if nm == "" {
			nm = p.Name()
		}
		f.define(st, p, p, vc.freshValue(fmt.Sprintf("%s%s_%s", f.prefix, nm, tag), p.Type()))
	}
	// 3. assume the invariants
	for _, cl := range invs {
		ctx := f.newCtx(st, f.entry)
		ctx.assumeMode = true
		ctx.at = b
		g, err := ctx.evalBoolSafe(cl.E)
		if err != nil {
			return nil, fmt.Errorf("%s: invariant of loop %d: %v", cl.Pos, li.ord, err)
		}
		st.pc = B.And(st.pc, g)
	}
	if li.spec != nil {
		for _, l := range li.spec.Lets {
			ctx := f.newCtx(st, f.entry)
			ctx.at = b
			if cv := ctx.evalLet(l); cv.V != nil {
				f.names[l.Name] = cv
			}
		}
	}
	if li.spec != nil && li.spec.Decreases != nil {
		ctx := f.newCtx(st, f.entry)
		ctx.at = b
		m, err := ctx.evalIntSafe(li.spec.Decreases.E)
		if err != nil {
			return nil, fmt.Errorf("%s: decreases of loop %d: %v", li.spec.Decreases.Pos, li.ord, err)
		}
		li.measure = m
	}
	return st, nil
}

// cellTypeInv re-establishes slice/string invariants for havocked cell slots.
func (f *Frame) cellTypeInv(st *State, c *Cell) {
	vc := f.vc
	var walk func(t types.Type, off int64)
	walk = func(t types.Type, off int64) {
		switch u := t.Underlying().(type) {
		case *types.Slice:
			p, ok1 := st.cells[fmt.Sprintf("%s@%d", c.ID, off)].(VT)
			l, ok2 := st.cells[fmt.Sprintf("%s@%d", c.ID, off+8)].(VT)
			cp, ok3 := st.cells[fmt.Sprintf("%s@%d", c.ID, off+16)].(VT)
			if ok1 && ok2 && ok3 {
				vc.sliceInv(VSlice{p.T, l.T, cp.T}, sizeOf(u.Elem()))
			}
		case *types.Struct:
			offs := fieldOffsets(u)
			for i := 0; i < u.NumFields(); i++ {
				walk(u.Field(i).Type(), off+offs[i])
			}
		case *types.Basic:
			if isString(t) {
				p, ok1 := st.cells[fmt.Sprintf("%s@%d", c.ID, off)].(VT)
				l, ok2 := st.cells[fmt.Sprintf("%s@%d", c.ID, off+8)].(VT)
				if ok1 && ok2 {
					vc.stringInv(VString{p.T, l.T})
				}
			}
		}
	}
	walk(c.Typ, 0)
}

func (f *Frame) backEdge(li *loopInfo, from nodeKey, st *State) {
	vc := f.vc
	B := vc.B
	b := li.head
	phis := headPhis(b)
	tag := fmt.Sprintf("loop%d", li.ord)
	over := map[ssa.Value]Value{}
	pi := predIndex(b, from.b)
	for _, p := range phis {
		over[p] = f.lookup(st, p.Edges[pi])
	}
	if li.spec != nil {
		for _, cl := range li.spec.Invariants {
			ctx := f.newCtx(st, f.entry)
			ctx.at = b
			ctx.override = over
			g, err := ctx.evalBoolSafe(cl.E)
			if err != nil {
				f.oblige(st, "inv-pres", tag, "invariant cannot be evaluated: "+err.Error(), b.Instrs[0].Pos(), B.False(), cl)
				continue
			}
			f.oblige(st, "inv-pres", tag, "invariant preserved: "+cl.Text, b.Instrs[0].Pos(), g, cl)
		}
		if d := li.spec.Decreases; d != nil && li.measure != nil {
			ctx := f.newCtx(st, f.entry)
			ctx.at = b
			ctx.override = over
			m, err := ctx.evalIntSafe(d.E)
			if err != nil {
				f.oblige(st, "decreases", tag, "measure cannot be evaluated: "+err.Error(), b.Instrs[0].Pos(), B.False(), d)
			} else {
				f.oblige(st, "decreases", tag, "measure decreases and is bounded below: "+d.Text, b.Instrs[0].Pos(),
					B.And(B.Le(B.Int(0), li.measure), B.Lt(m, li.measure)), d)
			}
		}
	}
}
