package main

import (
	"fmt"
	"go/types"
	"math/big"
	"strings"
)

// ---------------------------------------------------------------- symbolic values

type Value interface{}

// VT is a scalar: integer, bool (sort Bool), address, or opaque identity.
type VT struct{ T *Term }

type VSlice struct{ Ptr, Len, Cap *Term }
type VString struct{ Ptr, Len *Term }
type VIface struct{ Typ, Data *Term }
type VTuple struct{ Elems []Value }

// VPtr is a pointer with provenance. Cell != nil: pointer into a local/global
// cell at constant byte offset Off (+ optional dynamic offset Dyn). Otherwise
// Addr is the byte address and Key the Burstall heap class ("T.f") it was
// formed with ("" = class chosen by the pointee type).
type VPtr struct {
	Cell *Cell
	Off  int64
	Dyn  *Term
	Addr *Term
	Key  string
	Raw  bool // formed from unsafe.Pointer/uintptr arithmetic
	Idx  *Term // element index into a global table cell
	// Orig/OrigT: this raw pointer was made by converting the address of a Go-typed slice or string
	// FIELD (heap class Orig, type OrigT) to unsafe.Pointer; a header view of it ((*sliceHeader)(p).data)
	// then reads the words of that very field
	Orig  string
	OrigT types.Type
}

// Cell is a local (ssa.Alloc) or global variable that is modelled by value.
type Cell struct {
	ID    string
	Typ   types.Type
	Bytes bool // byte-array cell (integer arrays, may be indexed dynamically)
	Size  int64
}

type Leaf struct {
	Off  int64
	Kind string // "int","bool","ptr","float"
	Typ  types.Type
	Path string // ".ptr", ".len", ".cap", ".typ", ".data" or ""
	Size int64
}

var sizes = types.SizesFor("gc", "amd64")

func sizeOf(t types.Type) int64 { return sizes.Sizeof(t) }

func typeKey(t types.Type) string {
	return types.TypeString(types.Unalias(t), func(p *types.Package) string { return pkgShort(p) })
}

func pow2(n uint) *big.Int { return new(big.Int).Lsh(big.NewInt(1), n) }

// intInfo returns the bit width and signedness of integer-like basic types.
func intInfo(t types.Type) (bits uint, signed bool, ok bool) {
	b, isB := t.Underlying().(*types.Basic)
	if !isB {
		return 0, false, false
	}
	switch b.Kind() {
	case types.Int8:
		return 8, true, true
	case types.Int16:
		return 16, true, true
	case types.Int32:
		return 32, true, true
	case types.Int64, types.Int, types.UntypedInt, types.UntypedRune:
		return 64, true, true
	case types.Uint8:
		return 8, false, true
	case types.Uint16:
		return 16, false, true
	case types.Uint32:
		return 32, false, true
	case types.Uint64, types.Uint, types.Uintptr:
		return 64, false, true
	case types.UnsafePointer:
		return 64, false, true
	}
	return 0, false, false
}

func intRange(bits uint, signed bool) (lo, hi *big.Int) {
	if signed {
		h := pow2(bits - 1)
		return new(big.Int).Neg(h), new(big.Int).Sub(h, big.NewInt(1))
	}
	return big.NewInt(0), new(big.Int).Sub(pow2(bits), big.NewInt(1))
}

func isBool(t types.Type) bool {
	b, ok := t.Underlying().(*types.Basic)
	return ok && (b.Kind() == types.Bool || b.Kind() == types.UntypedBool)
}

func isFloat(t types.Type) bool {
	b, ok := t.Underlying().(*types.Basic)
	return ok && (b.Info()&types.IsFloat != 0)
}

func isString(t types.Type) bool {
	b, ok := t.Underlying().(*types.Basic)
	return ok && b.Info()&types.IsString != 0
}

func isPointerLike(t types.Type) bool {
	switch u := t.Underlying().(type) {
	case *types.Pointer, *types.Map, *types.Chan, *types.Signature:
		return true
	case *types.Basic:
		return u.Kind() == types.UnsafePointer
	}
	return false
}

// flatten lists the scalar leaves of a type with byte offsets (gc/amd64 layout).
func flatten(t types.Type, base int64, out *[]Leaf) error {
	switch u := t.Underlying().(type) {
	case *types.Basic:
		switch {
		case isBool(t):
			*out = append(*out, Leaf{Off: base, Kind: "bool", Typ: t, Size: 1})
		case isString(t):
			*out = append(*out, Leaf{Off: base, Kind: "ptr", Typ: t, Path: ".ptr", Size: 8}, Leaf{Off: base + 8, Kind: "int", Typ: types.Typ[types.Int], Path: ".len", Size: 8})
		case isFloat(t):
			*out = append(*out, Leaf{Off: base, Kind: "float", Typ: t, Size: sizeOf(t)})
		default:
			if _, _, ok := intInfo(t); ok {
				*out = append(*out, Leaf{Off: base, Kind: "int", Typ: t, Size: sizeOf(t)})
			} else {
				return fmt.Errorf("flatten: basic %s", t)
			}
		}
	case *types.Pointer, *types.Map, *types.Chan, *types.Signature:
		*out = append(*out, Leaf{Off: base, Kind: "ptr", Typ: t, Size: 8})
	case *types.Slice:
		*out = append(*out, Leaf{Off: base, Kind: "ptr", Typ: t, Path: ".ptr", Size: 8},
			Leaf{Off: base + 8, Kind: "int", Typ: types.Typ[types.Int], Path: ".len", Size: 8},
			Leaf{Off: base + 16, Kind: "int", Typ: types.Typ[types.Int], Path: ".cap", Size: 8})
	case *types.Interface:
		*out = append(*out, Leaf{Off: base, Kind: "ptr", Typ: t, Path: ".typ", Size: 8}, Leaf{Off: base + 8, Kind: "ptr", Typ: t, Path: ".data", Size: 8})
	case *types.Struct:
		offs := fieldOffsets(u)
		for i := 0; i < u.NumFields(); i++ {
			if err := flatten(u.Field(i).Type(), base+offs[i], out); err != nil {
				return err
			}
		}
	case *types.Array:
		es := sizeOf(u.Elem())
		if u.Len() > 64 {
			return fmt.Errorf("flatten: array too long %s", t)
		}
		for i := int64(0); i < u.Len(); i++ {
			if err := flatten(u.Elem(), base+i*es, out); err != nil {
				return err
			}
		}
	default:
		return fmt.Errorf("flatten: %s", t)
	}
	return nil
}

func fieldOffsets(s *types.Struct) []int64 {
	fs := make([]*types.Var, s.NumFields())
	for i := range fs {
		fs[i] = s.Field(i)
	}
	return sizes.Offsetsof(fs)
}

func structOf(t types.Type) *types.Struct {
	if p, ok := t.Underlying().(*types.Pointer); ok {
		t = p.Elem()
	}
	s, _ := t.Underlying().(*types.Struct)
	return s
}

func fieldKey(structType types.Type, idx int) string {
	structType = types.Unalias(structType)
	s := structType.Underlying().(*types.Struct)
	return typeKey(structType) + "." + s.Field(idx).Name()
}

func shortKey(k string) string {
	return strings.ReplaceAll(k, "github.com/goccy/go-json/", "")
}
