package main

// Engine-side quantifier instantiation (stage 2 of discharge). The quantified
// hypotheses produced by contracts and by the memory model are almost all in
// the array-property shape
//
//	forall j :: guard(j) ==> P(A[b + j], ...)
//
// For such formulas instantiating j with (t - b) for every index term t that
// is read anywhere in the query is complete (Bradley/Manna/Sipma) and, above
// all, gives the solvers a quantifier-free problem. Only instances of
// hypotheses are added and the negated goal is skolemised, so `unsat` of the
// resulting query is a sound proof of the obligation.

import (
	"fmt"
	"math/big"
	"os"
	"sort"
	"strings"
)

type instCtx struct {
	B      *Builder
	qf     []*Term // quantifier-free assertions
	qs     []*Term // universally quantified hypotheses (forall at the top, possibly under a guard)
	nskol  int
	limit  int
	seenQF map[*Term]bool
	goalQF []*Term
}

// nnfAssert adds formula t (polarity: asserted true) splitting conjunctions,
// skolemising existentials and collecting universals.
func (ic *instCtx) assert(t *Term) {
	B := ic.B
	switch t.op {
	case "and":
		for _, a := range t.args {
			ic.assert(a)
		}
		return
	case "exists":
		m := map[*Term]*Term{}
		for _, v := range t.args[1:] {
			ic.nskol++
			m[v] = B.Fresh("sk_"+v.name, v.sort)
		}
		ic.assert(B.Subst(t.args[0], m))
		return
	case "not":
		if !t.quant {
			ic.addQF(t)
			return
		}
		ic.assertNot(t.args[0])
		return
	}
	if !t.quant {
		ic.addQF(t)
		return
	}
	if t.op == "forall" {
		ic.qs = append(ic.qs, t)
		return
	}
	if t.op == "=>" && !t.args[0].quant && t.args[1].op == "forall" {
		// guard ==> forall v. body   ==   forall v. guard ==> body
		q := t.args[1]
		ic.qs = append(ic.qs, B.Forall(q.args[1:], B.Implies(t.args[0], q.args[0])))
		return
	}
	if t.op == "=>" && !t.args[0].quant && t.args[1].op == "exists" {
		// guard ==> exists v. P: skolemise under the guard
		q := t.args[1]
		m := map[*Term]*Term{}
		for _, v := range q.args[1:] {
			ic.nskol++
			m[v] = B.Fresh("sk_"+v.name, v.sort)
		}
		ic.assert(B.Implies(t.args[0], B.Subst(q.args[0], m)))
		return
	}
	if t.op == "=>" && !t.args[0].quant {
		// guard ==> (conjunction with quantifiers): distribute
		if t.args[1].op == "and" {
			for _, a := range t.args[1].args {
				ic.assert(B.Implies(t.args[0], a))
			}
			return
		}
	}
	if t.op == "=>" && t.args[0].quant {
		// (A => B) with quantified A: equivalent to (not A) or B; keep only when A's negation is existential-free... give up on this conjunct
		return
	}
	if t.op == "or" || t.op == "ite" || t.op == "=" {
		// quantifier below a disjunction: dropped (sound: fewer hypotheses)
		return
	}
}

func (ic *instCtx) addQF(t *Term) {
	if t.IsTrue() {
		return
	}
	if !ic.seenQF[t] {
		ic.seenQF[t] = true
		ic.qf = append(ic.qf, t)
	}
}

func (ic *instCtx) assertNot(t *Term) {
	B := ic.B
	if !t.quant {
		n := B.Not(t)
		if n.op == "and" {
			ic.assert(n)
		} else {
			ic.addQF(n)
		}
		return
	}
	switch t.op {
	case "not":
		ic.assert(t.args[0])
	case "or":
		for _, a := range t.args {
			ic.assertNot(a)
		}
	case "=>":
		ic.assert(t.args[0])
		ic.assertNot(t.args[1])
	case "forall":
		m := map[*Term]*Term{}
		for _, v := range t.args[1:] {
			ic.nskol++
			m[v] = B.Fresh("sk_"+v.name, v.sort)
		}
		ic.assertNot(B.Subst(t.args[0], m))
	case "exists":
		// not (exists v. P)  ==  forall v. not P: a universal hypothesis to instantiate
		ic.qs = append(ic.qs, B.Forall(t.args[1:], B.Not(t.args[0])))
	case "and":
		if !t.quant {
			ic.assert(B.Not(t))
			return
		}
		// not (a and b) with quantifiers inside: skolemise each conjunct's negation under a disjunction
		var alts []*Term
		for _, a := range t.args {
			alts = append(alts, ic.skolemNeg(a))
		}
		ic.assert(B.Or(alts...))
	default:
		if !t.quant {
			ic.assert(B.Not(t))
		}
		// quantified formula of another shape under negation: dropped
	}
}

// skolemNeg returns a quantifier-free formula implied-by-witness of (not t):
// universals of t become fresh constants.
func (ic *instCtx) skolemNeg(t *Term) *Term {
	B := ic.B
	switch t.op {
	case "forall":
		m := map[*Term]*Term{}
		for _, v := range t.args[1:] {
			m[v] = B.Fresh("sk_"+v.name, v.sort)
		}
		return ic.skolemNeg(B.Subst(t.args[0], m))
	case "=>":
		if !t.args[0].quant {
			return B.And(t.args[0], ic.skolemNeg(t.args[1]))
		}
	case "and":
		var alts []*Term
		for _, a := range t.args {
			alts = append(alts, ic.skolemNeg(a))
		}
		return B.Or(alts...)
	}
	if !t.quant {
		return B.Not(t)
	}
	// cannot express the negation without quantifiers: weakest sound choice for an
	// assertion is "true" (drops the information)
	return B.True()
}

// arrayRoots: the array variables a term denotes after peeling stores and ites.
func arrayRoots(a *Term, out map[*Term]bool) {
	switch a.op {
	case "store":
		arrayRoots(a.args[0], out)
	case "ite":
		arrayRoots(a.args[1], out)
		arrayRoots(a.args[2], out)
	default:
		out[a] = true
	}
}

// appTerms collects the ground applications of uninterpreted functions in t (outside quantifiers), per function.
func appTerms(t *Term, out map[string]map[*Term]bool, seen map[*Term]bool) {
	if seen[t] {
		return
	}
	seen[t] = true
	if t.op == "forall" || t.op == "exists" {
		return
	}
	if strings.HasPrefix(t.op, "app:") && !t.bound {
		if out[t.op] == nil {
			out[t.op] = map[*Term]bool{}
		}
		out[t.op][t] = true
	}
	for _, a := range t.args {
		appTerms(a, out, seen)
	}
}

// appPatterns: applications f(.., v + c, ..) in a quantified body in which the bound variable v occurs in
// exactly one argument (plus a constant) and every other argument is ground.
type appPat struct {
	op   string
	pos  int
	off  *Term   // constant added to v in that argument
	rest []*Term // the other arguments (nil at pos)
}

func appPatterns(B *Builder, body *Term, v *Term) []appPat {
	var out []appPat
	seen := map[*Term]bool{}
	var walk func(t *Term)
	walk = func(t *Term) {
		if seen[t] || !t.bound {
			return
		}
		seen[t] = true
		if strings.HasPrefix(t.op, "app:") {
			pos := -1
			ok := true
			var off *Term
			for i, a := range t.args {
				if !a.bound {
					continue
				}
				if pos >= 0 {
					ok = false
					break
				}
				pos = i
				switch {
				case a == v:
					off = B.Int(0)
				case a.op == "+":
					cnt := 0
					var rest []*Term
					for _, x := range a.args {
						if x == v {
							cnt++
						} else {
							rest = append(rest, x)
						}
					}
					if cnt != 1 {
						ok = false
					}
					for _, r := range rest {
						if r.bound {
							ok = false
						}
					}
					if ok {
						off = B.Add(rest...)
					}
				default:
					ok = false
				}
			}
			if ok && pos >= 0 && off != nil {
				rest := make([]*Term, len(t.args))
				for i, a := range t.args {
					if i != pos {
						rest[i] = a
					}
				}
				out = append(out, appPat{t.op, pos, off, rest})
			}
		}
		for _, a := range t.args {
			walk(a)
		}
	}
	walk(body)
	return out
}

// definingHead: for a body of the shape  [guard ==>] lhs == rhs  where lhs is an application that mentions v, return lhs.
func definingHead(body *Term, v *Term) *Term {
	t := body
	for t.op == "=>" {
		t = t.args[1]
	}
	if t.op == "and" {
		// strRun(s,0) == 0 && (guard ==> head == rhs): take the conjunct that has a guard
		for _, a := range t.args {
			if h := definingHead(a, v); h != nil {
				return h
			}
		}
		return nil
	}
	if t.op != "=" || len(t.args) != 2 {
		return nil
	}
	for _, side := range t.args {
		if strings.HasPrefix(side.op, "app:") && side.bound {
			for _, a := range side.args {
				if a != v && a.bound && a.op == "+" {
					return side
				}
			}
		}
	}
	return nil
}

// indexTerms collects, per array root, the index arguments of every select in t (outside quantifiers).
func indexTerms(t *Term, out map[*Term]map[*Term]bool, seen map[*Term]bool) {
	if seen[t] {
		return
	}
	seen[t] = true
	if t.op == "forall" || t.op == "exists" {
		return
	}
	if t.op == "select" && !t.args[1].bound {
		roots := map[*Term]bool{}
		arrayRoots(t.args[0], roots)
		for r := range roots {
			if out[r] == nil {
				out[r] = map[*Term]bool{}
			}
			out[r][t.args[1]] = true
		}
	}
	for _, a := range t.args {
		indexTerms(a, out, seen)
	}
}

// patterns of a quantified body: for bound variable v, the bases b such that some
// select index equals b + v (v occurring once with coefficient 1).
type basePat struct {
	root, base *Term
	coef       int64 // the index is base + coef*v
}

// linForm: t as a linear combination of atoms plus a constant.
func linForm(t *Term, k *big.Int, co map[*Term]*big.Int, c *big.Int) {
	switch {
	case t.IsConst():
		c.Add(c, new(big.Int).Mul(k, t.ival))
	case t.op == "+":
		for _, a := range t.args {
			linForm(a, k, co, c)
		}
	case t.op == "-" && len(t.args) == 2:
		linForm(t.args[0], k, co, c)
		linForm(t.args[1], new(big.Int).Neg(k), co, c)
	case t.op == "*" && t.args[0].IsConst():
		linForm(t.args[1], new(big.Int).Mul(k, t.args[0].ival), co, c)
	default:
		if co[t] == nil {
			co[t] = new(big.Int)
		}
		co[t].Add(co[t], k)
	}
}

// divExact: (t - base) / coef when every coefficient of the difference is divisible by coef.
func divExact(B *Builder, t, base *Term, coef int64) (*Term, bool) {
	co := map[*Term]*big.Int{}
	c := new(big.Int)
	linForm(t, big.NewInt(1), co, c)
	linForm(base, big.NewInt(-1), co, c)
	d := big.NewInt(coef)
	var atoms []*Term
	for a, k := range co {
		if k.Sign() == 0 {
			continue
		}
		if new(big.Int).Mod(k, d).Sign() != 0 {
			return nil, false
		}
		atoms = append(atoms, a)
	}
	if new(big.Int).Mod(c, d).Sign() != 0 {
		return nil, false
	}
	sort.Slice(atoms, func(i, j int) bool { return atoms[i].id < atoms[j].id })
	parts := []*Term{B.Big(new(big.Int).Div(c, d))}
	for _, a := range atoms {
		parts = append(parts, B.Mul(B.Big(new(big.Int).Div(co[a], d)), a))
	}
	return B.Add(parts...), true
}

func selectBases(B *Builder, body *Term, v *Term) []basePat {
	bases := map[basePat]bool{}
	seen := map[*Term]bool{}
	var walk func(t *Term)
	walk = func(t *Term) {
		if seen[t] || !t.bound {
			return
		}
		seen[t] = true
		if t.op == "select" {
			idx := t.args[1]
			roots := map[*Term]bool{}
			arrayRoots(t.args[0], roots)
			add := func(b *Term, coef int64) {
				for r := range roots {
					bases[basePat{r, b, coef}] = true
				}
			}
			if idx == v {
				add(B.Int(0), 1)
			} else if idx.op == "+" {
				cnt := 0
				coef := int64(1)
				var rest []*Term
				for _, a := range idx.args {
					if a == v {
						cnt++
					} else if a.op == "*" && a.args[0].IsConst() && a.args[1] == v && a.args[0].ival.IsInt64() && a.args[0].ival.Int64() > 1 {
						cnt++
						coef = a.args[0].ival.Int64()
					} else {
						rest = append(rest, a)
					}
				}
				ok := cnt == 1
				for _, r := range rest {
					if r.bound {
						ok = false
					}
				}
				if ok {
					add(B.Add(rest...), coef)
				}
			}
		}
		for _, a := range t.args {
			walk(a)
		}
	}
	walk(body)
	var out []basePat
	for b := range bases {
		out = append(out, b)
	}
	sort.Slice(out, func(i, j int) bool {
		if out[i].root.id != out[j].root.id {
			return out[i].root.id < out[j].root.id
		}
		return out[i].base.id < out[j].base.id
	})
	return out
}

// instantiate builds the quantifier-free query. ok=false if nothing was quantified.
func instantiateQuery(B *Builder, asserts []*Term, negGoal *Term, wide bool) ([]*Term, bool) {
	ic := &instCtx{B: B, seenQF: map[*Term]bool{}, limit: 2500}
	anyQ := negGoal.quant
	for _, a := range asserts {
		if a.quant {
			anyQ = true
		}
		ic.assert(a)
	}
	nb := len(ic.qf)
	ic.assert(negGoal)
	ic.goalQF = append([]*Term{}, ic.qf[nb:]...)
	if !anyQ {
		return nil, false
	}
	total := 0
	done := map[[2]*Term]bool{}
	// goal-directed: start from the reads of the negated goal, then follow the reads
	// introduced by each new instance (relevancy closure), not every read of the query
	nGoalStart := len(ic.qf)
	_ = nGoalStart
	frontier := map[*Term]map[*Term]bool{}
	{
		seen := map[*Term]bool{}
		src := ic.goalQF
		if wide {
			// second attempt: the goal reads nothing useful (e.g. a bound that follows from a table
			// property): seed with every read of the quantifier-free part of the query
			src = ic.qf
		}
		for _, t := range src {
			indexTerms(t, frontier, seen)
		}
	}
	maxRounds := 14
	if wide {
		maxRounds = 13
		ic.limit = 4000
	}
	appFrontier := map[string]map[*Term]bool{}
	{
		seen := map[*Term]bool{}
		src := ic.goalQF
		if wide {
			src = ic.qf
		}
		for _, t := range src {
			appTerms(t, appFrontier, seen)
		}
	}
	allApps := map[*Term]bool{}
	allIdx := map[*Term]map[*Term]bool{}
	for round := 0; round < maxRounds && (len(frontier) > 0 || len(appFrontier) > 0); round++ {
		for _, m := range appFrontier {
			for t := range m {
				allApps[t] = true
			}
		}
		nextApps := map[string]map[*Term]bool{}
		if os.Getenv("GOVC_DBGINST") != "" {
			nf, na := 0, 0
			for _, m := range frontier {
				nf += len(m)
			}
			for _, m := range appFrontier {
				na += len(m)
			}
			fmt.Fprintf(os.Stderr, "inst round %d wide=%v: %d quantified hyps, %d index terms, %d app terms, %d instances so far\n", round, wide, len(ic.qs), nf, na, total)
		}
		for r, m := range frontier {
			if allIdx[r] == nil {
				allIdx[r] = map[*Term]bool{}
			}
			for t := range m {
				allIdx[r][t] = true
			}
		}
		next := map[*Term]map[*Term]bool{}
		// two bound variables, one of which is a direct argument of an uninterpreted function (a "base"
		// parameter such as the p of run(p, k)): instantiate that one from the ground applications, which
		// leaves single-variable hypotheses for the loop below
		for _, q := range append([]*Term{}, ic.qs...) {
			if len(q.args) != 3 {
				continue
			}
			for vi := 1; vi <= 2; vi++ {
				v := q.args[vi]
				other := q.args[3-vi]
				vals := map[*Term]bool{}
				var walk func(t *Term)
				seenW := map[*Term]bool{}
				walk = func(t *Term) {
					if seenW[t] || !t.bound {
						return
					}
					seenW[t] = true
					if strings.HasPrefix(t.op, "app:") {
						for i, a := range t.args {
							if a == v {
								for g := range appFrontier[t.op] {
									if !g.args[i].bound {
										vals[g.args[i]] = true
									}
								}
							}
						}
					}
					for _, a := range t.args {
						walk(a)
					}
				}
				walk(q.args[0])
				var vl []*Term
				for x := range vals {
					vl = append(vl, x)
				}
				sort.Slice(vl, func(i, j int) bool { return vl[i].id < vl[j].id })
				for _, x := range vl {
					key := [2]*Term{q, x}
					if done[key] {
						continue
					}
					done[key] = true
					ic.qs = append(ic.qs, B.Forall([]*Term{other}, B.Subst(q.args[0], map[*Term]*Term{v: x})))
				}
			}
		}
		for _, q := range ic.qs {
			if len(q.args) != 2 {
				continue // single bound variable only
			}
			v := q.args[1]
			body := q.args[0]
			bases := selectBases(B, body, v)
			cands := map[*Term]bool{}
			for _, bp := range bases {
				if wide && round >= 2 {
					break // later rounds of the wide attempt only follow function patterns (linear growth)
				}
				for t := range frontier[bp.root] {
					if bp.coef != 1 {
						if q, ok := divExact(B, t, bp.base, bp.coef); ok {
							cands[q] = true
						}
						continue
					}
					cands[B.Sub(t, bp.base)] = true
				}
			}
			// uninterpreted-function patterns: f(.., v + c, ..) against ground f(.., t, ..). A defining
			// equation  guard ==> f(.., v + c, ..) == rhs  is triggered by its head only (unfolding),
			// and a hypothesis that has a function pattern is not also triggered by its array reads
			// (the cross product of bases and reads explodes).
			aps := appPatterns(B, body, v)
			if len(aps) > 0 {
				cands = map[*Term]bool{}
			}
			if hd := definingHead(body, v); hd != nil && !wide {
				// goal-directed: unfold backwards from the terms the goal mentions; the wide attempt also
				// unfolds forwards from the terms the hypotheses mention
				if hp := appPatterns(B, hd, v); len(hp) > 0 {
					aps = hp[:1]
				}
			}
			for _, ap := range aps {
				for g := range appFrontier[ap.op] {
					match := true
					for i, r := range ap.rest {
						if i != ap.pos && r != g.args[i] {
							match = false
						}
					}
					if match {
						cands[B.Sub(g.args[ap.pos], ap.off)] = true
					}
				}
			}
			var cl []*Term
			for c := range cands {
				cl = append(cl, c)
			}
			sort.Slice(cl, func(i, j int) bool { return cl[i].id < cl[j].id })
			for _, c := range cl {
				key := [2]*Term{q, c}
				if done[key] {
					continue
				}
				done[key] = true
				if total >= ic.limit {
					break
				}
				inst := B.Subst(body, map[*Term]*Term{v: c})
				if inst.IsTrue() {
					continue
				}
				total++
				before := len(ic.qf)
				ic.assert(inst)
				seenA := map[*Term]bool{}
				for _, t := range ic.qf[before:] {
					fa := map[string]map[*Term]bool{}
					appTerms(t, fa, seenA)
					for op, m := range fa {
						for g := range m {
							if allApps[g] {
								continue
							}
							if nextApps[op] == nil {
								nextApps[op] = map[*Term]bool{}
							}
							nextApps[op][g] = true
						}
					}
				}
				seen := map[*Term]bool{}
				for _, t := range ic.qf[before:] {
					found := map[*Term]map[*Term]bool{}
					indexTerms(t, found, seen)
					for r, m := range found {
						for ix := range m {
							if allIdx[r] != nil && allIdx[r][ix] {
								continue
							}
							if next[r] == nil {
								next[r] = map[*Term]bool{}
							}
							next[r][ix] = true
						}
					}
				}
			}
		}
		frontier = next
		appFrontier = nextApps
	}
	return ic.qf, true
}
