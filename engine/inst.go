package main

// Engine-side quantifier instantiation (stage 2 of discharge). The quantified
// hypotheses produced by contracts and by the memory model are almost all in
// the array-property shape
//
//	forall j :: guard(j) ==> P(A[b + j], ...)
//
// For such formulas instantiating j with (t - b) for every index term t that
// is read anywhere in the query is complete (Bradley/Manna/Sipma) and, above
// all, gives the solvers a quantifier-free problem. Only instances of
// hypotheses are added and the negated goal is skolemised, so `unsat` of the
// resulting query is a sound proof of the obligation.

import (
	"math/big"
	"sort"
)

type instCtx struct {
	B      *Builder
	qf     []*Term // quantifier-free assertions
	qs     []*Term // universally quantified hypotheses (forall at the top, possibly under a guard)
	nskol  int
	limit  int
	seenQF map[*Term]bool
	goalQF []*Term
}

// nnfAssert adds formula t (polarity: asserted true) splitting conjunctions,
// skolemising existentials and collecting universals.
func (ic *instCtx) assert(t *Term) {
	B := ic.B
	switch t.op {
	case "and":
		for _, a := range t.args {
			ic.assert(a)
		}
		return
	case "exists":
		m := map[*Term]*Term{}
		for _, v := range t.args[1:] {
			ic.nskol++
			m[v] = B.Fresh("sk_"+v.name, v.sort)
		}
		ic.assert(B.Subst(t.args[0], m))
		return
	case "not":
		if !t.quant {
			ic.addQF(t)
			return
		}
		ic.assertNot(t.args[0])
		return
	}
	if !t.quant {
		ic.addQF(t)
		return
	}
	if t.op == "forall" {
		ic.qs = append(ic.qs, t)
		return
	}
	if t.op == "=>" && !t.args[0].quant && t.args[1].op == "forall" {
		// guard ==> forall v. body   ==   forall v. guard ==> body
		q := t.args[1]
		ic.qs = append(ic.qs, B.Forall(q.args[1:], B.Implies(t.args[0], q.args[0])))
		return
	}
	if t.op == "=>" && !t.args[0].quant {
		// guard ==> (conjunction with quantifiers): distribute
		if t.args[1].op == "and" {
			for _, a := range t.args[1].args {
				ic.assert(B.Implies(t.args[0], a))
			}
			return
		}
	}
	if t.op == "=>" && t.args[0].quant {
		// (A => B) with quantified A: equivalent to (not A) or B; keep only when A's negation is existential-free... give up on this conjunct
		return
	}
	if t.op == "or" || t.op == "ite" || t.op == "=" {
		// quantifier below a disjunction: dropped (sound: fewer hypotheses)
		return
	}
}

func (ic *instCtx) addQF(t *Term) {
	if t.IsTrue() {
		return
	}
	if !ic.seenQF[t] {
		ic.seenQF[t] = true
		ic.qf = append(ic.qf, t)
	}
}

func (ic *instCtx) assertNot(t *Term) {
	B := ic.B
	if !t.quant {
		n := B.Not(t)
		if n.op == "and" {
			ic.assert(n)
		} else {
			ic.addQF(n)
		}
		return
	}
	switch t.op {
	case "not":
		ic.assert(t.args[0])
	case "or":
		for _, a := range t.args {
			ic.assertNot(a)
		}
	case "=>":
		ic.assert(t.args[0])
		ic.assertNot(t.args[1])
	case "forall":
		m := map[*Term]*Term{}
		for _, v := range t.args[1:] {
			ic.nskol++
			m[v] = B.Fresh("sk_"+v.name, v.sort)
		}
		ic.assertNot(B.Subst(t.args[0], m))
	case "and":
		if !t.quant {
			ic.assert(B.Not(t))
			return
		}
		// not (a and b) with quantifiers inside: skolemise each conjunct's negation under a disjunction
		var alts []*Term
		for _, a := range t.args {
			alts = append(alts, ic.skolemNeg(a))
		}
		ic.assert(B.Or(alts...))
	default:
		if !t.quant {
			ic.assert(B.Not(t))
		}
		// quantified formula of another shape under negation: dropped
	}
}

// skolemNeg returns a quantifier-free formula implied-by-witness of (not t):
// universals of t become fresh constants.
func (ic *instCtx) skolemNeg(t *Term) *Term {
	B := ic.B
	switch t.op {
	case "forall":
		m := map[*Term]*Term{}
		for _, v := range t.args[1:] {
			m[v] = B.Fresh("sk_"+v.name, v.sort)
		}
		return ic.skolemNeg(B.Subst(t.args[0], m))
	case "=>":
		if !t.args[0].quant {
			return B.And(t.args[0], ic.skolemNeg(t.args[1]))
		}
	case "and":
		var alts []*Term
		for _, a := range t.args {
			alts = append(alts, ic.skolemNeg(a))
		}
		return B.Or(alts...)
	}
	if !t.quant {
		return B.Not(t)
	}
	// cannot express the negation without quantifiers: weakest sound choice for an
	// assertion is "true" (drops the information)
	return B.True()
}

// arrayRoots: the array variables a term denotes after peeling stores and ites.
func arrayRoots(a *Term, out map[*Term]bool) {
	switch a.op {
	case "store":
		arrayRoots(a.args[0], out)
	case "ite":
		arrayRoots(a.args[1], out)
		arrayRoots(a.args[2], out)
	default:
		out[a] = true
	}
}

// indexTerms collects, per array root, the index arguments of every select in t (outside quantifiers).
func indexTerms(t *Term, out map[*Term]map[*Term]bool, seen map[*Term]bool) {
	if seen[t] {
		return
	}
	seen[t] = true
	if t.op == "forall" || t.op == "exists" {
		return
	}
	if t.op == "select" && !t.args[1].bound {
		roots := map[*Term]bool{}
		arrayRoots(t.args[0], roots)
		for r := range roots {
			if out[r] == nil {
				out[r] = map[*Term]bool{}
			}
			out[r][t.args[1]] = true
		}
	}
	for _, a := range t.args {
		indexTerms(a, out, seen)
	}
}

// patterns of a quantified body: for bound variable v, the bases b such that some
// select index equals b + v (v occurring once with coefficient 1).
type basePat struct {
	root, base *Term
	coef       int64 // the index is base + coef*v
}

// linForm: t as a linear combination of atoms plus a constant.
func linForm(t *Term, k *big.Int, co map[*Term]*big.Int, c *big.Int) {
	switch {
	case t.IsConst():
		c.Add(c, new(big.Int).Mul(k, t.ival))
	case t.op == "+":
		for _, a := range t.args {
			linForm(a, k, co, c)
		}
	case t.op == "-" && len(t.args) == 2:
		linForm(t.args[0], k, co, c)
		linForm(t.args[1], new(big.Int).Neg(k), co, c)
	case t.op == "*" && t.args[0].IsConst():
		linForm(t.args[1], new(big.Int).Mul(k, t.args[0].ival), co, c)
	default:
		if co[t] == nil {
			co[t] = new(big.Int)
		}
		co[t].Add(co[t], k)
	}
}

// divExact: (t - base) / coef when every coefficient of the difference is divisible by coef.
func divExact(B *Builder, t, base *Term, coef int64) (*Term, bool) {
	co := map[*Term]*big.Int{}
	c := new(big.Int)
	linForm(t, big.NewInt(1), co, c)
	linForm(base, big.NewInt(-1), co, c)
	d := big.NewInt(coef)
	var atoms []*Term
	for a, k := range co {
		if k.Sign() == 0 {
			continue
		}
		if new(big.Int).Mod(k, d).Sign() != 0 {
			return nil, false
		}
		atoms = append(atoms, a)
	}
	if new(big.Int).Mod(c, d).Sign() != 0 {
		return nil, false
	}
	sort.Slice(atoms, func(i, j int) bool { return atoms[i].id < atoms[j].id })
	parts := []*Term{B.Big(new(big.Int).Div(c, d))}
	for _, a := range atoms {
		parts = append(parts, B.Mul(B.Big(new(big.Int).Div(co[a], d)), a))
	}
	return B.Add(parts...), true
}

func selectBases(B *Builder, body *Term, v *Term) []basePat {
	bases := map[basePat]bool{}
	seen := map[*Term]bool{}
	var walk func(t *Term)
	walk = func(t *Term) {
		if seen[t] || !t.bound {
			return
		}
		seen[t] = true
		if t.op == "select" {
			idx := t.args[1]
			roots := map[*Term]bool{}
			arrayRoots(t.args[0], roots)
			add := func(b *Term, coef int64) {
				for r := range roots {
					bases[basePat{r, b, coef}] = true
				}
			}
			if idx == v {
				add(B.Int(0), 1)
			} else if idx.op == "+" {
				cnt := 0
				coef := int64(1)
				var rest []*Term
				for _, a := range idx.args {
					if a == v {
						cnt++
					} else if a.op == "*" && a.args[0].IsConst() && a.args[1] == v && a.args[0].ival.IsInt64() && a.args[0].ival.Int64() > 1 {
						cnt++
						coef = a.args[0].ival.Int64()
					} else {
						rest = append(rest, a)
					}
				}
				ok := cnt == 1
				for _, r := range rest {
					if r.bound {
						ok = false
					}
				}
				if ok {
					add(B.Add(rest...), coef)
				}
			}
		}
		for _, a := range t.args {
			walk(a)
		}
	}
	walk(body)
	var out []basePat
	for b := range bases {
		out = append(out, b)
	}
	sort.Slice(out, func(i, j int) bool {
		if out[i].root.id != out[j].root.id {
			return out[i].root.id < out[j].root.id
		}
		return out[i].base.id < out[j].base.id
	})
	return out
}

// instantiate builds the quantifier-free query. ok=false if nothing was quantified.
func instantiateQuery(B *Builder, asserts []*Term, negGoal *Term, wide bool) ([]*Term, bool) {
	ic := &instCtx{B: B, seenQF: map[*Term]bool{}, limit: 2500}
	anyQ := negGoal.quant
	for _, a := range asserts {
		if a.quant {
			anyQ = true
		}
		ic.assert(a)
	}
	nb := len(ic.qf)
	ic.assert(negGoal)
	ic.goalQF = append([]*Term{}, ic.qf[nb:]...)
	if !anyQ {
		return nil, false
	}
	total := 0
	done := map[[2]*Term]bool{}
	// goal-directed: start from the reads of the negated goal, then follow the reads
	// introduced by each new instance (relevancy closure), not every read of the query
	nGoalStart := len(ic.qf)
	_ = nGoalStart
	frontier := map[*Term]map[*Term]bool{}
	{
		seen := map[*Term]bool{}
		src := ic.goalQF
		if wide {
			// second attempt: the goal reads nothing useful (e.g. a bound that follows from a table
			// property): seed with every read of the quantifier-free part of the query
			src = ic.qf
		}
		for _, t := range src {
			indexTerms(t, frontier, seen)
		}
	}
	maxRounds := 8
	if wide {
		maxRounds = 2
		ic.limit = 4000
	}
	allIdx := map[*Term]map[*Term]bool{}
	for round := 0; round < maxRounds && len(frontier) > 0; round++ {
		for r, m := range frontier {
			if allIdx[r] == nil {
				allIdx[r] = map[*Term]bool{}
			}
			for t := range m {
				allIdx[r][t] = true
			}
		}
		next := map[*Term]map[*Term]bool{}
		for _, q := range ic.qs {
			if len(q.args) != 2 {
				continue // single bound variable only
			}
			v := q.args[1]
			body := q.args[0]
			bases := selectBases(B, body, v)
			cands := map[*Term]bool{}
			for _, bp := range bases {
				for t := range frontier[bp.root] {
					if bp.coef != 1 {
						if q, ok := divExact(B, t, bp.base, bp.coef); ok {
							cands[q] = true
						}
						continue
					}
					cands[B.Sub(t, bp.base)] = true
				}
			}
			var cl []*Term
			for c := range cands {
				cl = append(cl, c)
			}
			sort.Slice(cl, func(i, j int) bool { return cl[i].id < cl[j].id })
			for _, c := range cl {
				key := [2]*Term{q, c}
				if done[key] {
					continue
				}
				done[key] = true
				if total >= ic.limit {
					break
				}
				inst := B.Subst(body, map[*Term]*Term{v: c})
				if inst.IsTrue() {
					continue
				}
				total++
				before := len(ic.qf)
				ic.assert(inst)
				seen := map[*Term]bool{}
				for _, t := range ic.qf[before:] {
					found := map[*Term]map[*Term]bool{}
					indexTerms(t, found, seen)
					for r, m := range found {
						for ix := range m {
							if allIdx[r] != nil && allIdx[r][ix] {
								continue
							}
							if next[r] == nil {
								next[r] = map[*Term]bool{}
							}
							next[r][ix] = true
						}
					}
				}
			}
		}
		frontier = next
	}
	return ic.qf, true
}
