package main

import (
	"fmt"
	"go/token"
	"go/types"
	"strings"

	"golang.org/x/tools/go/ssa"
)

// ---------------------------------------------------------------- external (assumed) specs

type externalSpec struct {
	pure     bool     // does not write any heap class we model
	nonNil   bool     // pointer / error result is non-nil
	writes   []string // heap classes written (when not pure)
	special  string
	assumed  string // text for the evidence
}

func lookupExternal(fn *ssa.Function) *externalSpec {
	full := fn.String()
	name := fn.Name()
	pkg := ""
	if fn.Pkg != nil {
		pkg = fn.Pkg.Pkg.Path()
	}
	switch full {
	case "math.IsNaN":
		return &externalSpec{pure: true, special: "isnan", assumed: "math.IsNaN(f) <=> f is NaN"}
	case "math.IsInf":
		return &externalSpec{pure: true, special: "isinf", assumed: "math.IsInf(f, 0) <=> f is +-Inf"}
	case "fmt.Errorf", "errors.New":
		return &externalSpec{pure: true, nonNil: true, assumed: full + " is pure and returns a non-nil error"}
	case "fmt.Sprintf", "fmt.Sprint":
		return &externalSpec{pure: true, assumed: full + " is pure"}
	case "(*sync.Pool).Get":
		return &externalSpec{pure: true, special: "poolget", assumed: "sync.Pool.Get returns an object whose contents are arbitrary"}
	case "(*sync.Pool).Put", "(*sync.Mutex).Lock", "(*sync.Mutex).Unlock", "(*sync.RWMutex).Lock", "(*sync.RWMutex).Unlock",
		"(*sync.RWMutex).RLock", "(*sync.RWMutex).RUnlock":
		return &externalSpec{pure: true, assumed: "sync primitives have sequential semantics (no effect on modelled state)"}
	case "math/bits.TrailingZeros64", "math/bits.TrailingZeros8", "math/bits.TrailingZeros16", "math/bits.TrailingZeros32":
		return &externalSpec{pure: true, special: "tz", assumed: "math/bits.TrailingZeros* returns a value in [0, width]"}
	case "(*bytes.Buffer).Grow":
		return &externalSpec{pure: true, special: "bbuf.grow", assumed: "bytes.Buffer.Grow changes neither length nor contents (abstract buffer model)"}
	case "(*bytes.Buffer).Len":
		return &externalSpec{pure: true, special: "bbuf.len", assumed: "bytes.Buffer.Len returns the abstract length"}
	case "(*bytes.Buffer).Bytes":
		return &externalSpec{pure: true, special: "bbuf.bytes", assumed: "bytes.Buffer.Bytes returns a slice holding exactly the abstract contents"}
	case "(*bytes.Buffer).Write":
		return &externalSpec{pure: true, special: "bbuf.write", assumed: "bytes.Buffer.Write appends its argument to the abstract contents and returns (len(p), nil)"}
	case "bytes.Equal":
		return &externalSpec{pure: true, special: "bytes.equal", assumed: "bytes.Equal(a,b) <=> same length and same bytes"}
	case "unicode/utf8.EncodeRune":
		return &externalSpec{pure: true, special: "encoderune", assumed: "utf8.EncodeRune writes 1 to 4 bytes at the start of its buffer and returns that count"}
	case "bytes.IndexByte":
		return &externalSpec{pure: true, special: "indexbyte", assumed: "bytes.IndexByte(b,c) returns -1 or the first index of c in b"}
	}
	switch full {
	case "github.com/goccy/go-json/internal/runtime.typelinks", "github.com/goccy/go-json/internal/runtime.rtypeOff":
		return &externalSpec{pure: true, assumed: "reflect.typelinks / reflect.rtypeOff (go:linkname) do not write memory modelled here"}
	}
	switch pkg {
	case "github.com/goccy/go-json/internal/errors":
		return &externalSpec{pure: true, nonNil: true, assumed: "constructors in internal/errors are pure and return non-nil errors"}
	case "strconv", "unicode/utf8", "unicode/utf16", "unicode", "math", "math/bits", "reflect", "strings":
		return &externalSpec{pure: true, assumed: pkg + " functions do not write memory modelled here (results unconstrained)"}
	case "github.com/goccy/go-json/internal/runtime":
		switch name {
		case "RType2Type", "Type2RType", "PtrTo", "Kind", "Elem", "Size", "Len", "Key", "String", "Name", "Field", "NumField", "Implements", "PtrToType":
			return &externalSpec{pure: true, assumed: "runtime.Type accessors are pure"}
		}
	}
	return nil
}

// ---------------------------------------------------------------- calls

func (vc *VC) ifaceContract(cc *ssa.CallCommon) *Contract {
	if cc.Method == nil {
		return nil
	}
	recv := cc.Value.Type()
	if n, ok := recv.(*types.Named); ok {
		key := pkgShort(n.Obj().Pkg()) + "." + n.Obj().Name() + "." + cc.Method.Name()
		return vc.CS.Funcs[key]
	}
	return nil
}

func (f *Frame) execCall(st *State, x *ssa.Call) Value {
	vc := f.vc
	cc := x.Common()
	resT := x.Type()
	fresh := func() Value {
		if tu, ok := resT.(*types.Tuple); ok && tu.Len() == 0 {
			return VTuple{}
		}
		return vc.freshValue(f.prefix+x.Name(), resT)
	}
	if cc.IsInvoke() {
		if c := vc.ifaceContract(cc); c != nil {
			args := []Value{f.lookup(st, cc.Value)}
			for _, a := range cc.Args {
				args = append(args, f.lookup(st, a))
			}
			sig := cc.Method.Type().(*types.Signature)
			var ptypes []types.Type
			ptypes = append(ptypes, cc.Value.Type())
			for i := 0; i < sig.Params().Len(); i++ {
				ptypes = append(ptypes, sig.Params().At(i).Type())
			}
			return f.contractCall(st, x, c, nil, args, ptypes, sig.Results(), cc.Method.Name())
		}
		f.callAsserts(st, x, cc.Method.Name())
		vc.havocAll(st, "interface method call "+cc.Method.Name()+" without contract in "+f.fn.Name())
		r := fresh()
		f.postAssumesNoContract(st, x, cc.Method.Name(), r)
		return r
	}
	target := cc.Value
	// a call through a package-level function variable that is initialised once with a
	// function and never written again (e.g. appendFloat32 = encoder.AppendFloat32)
	if u, ok := target.(*ssa.UnOp); ok && u.Op == token.MUL {
		if g, ok := u.X.(*ssa.Global); ok {
			if info := theGlobals.info[g]; info != nil && info.readOnly && !info.ambiguous && info.fnVal != nil {
				target = info.fnVal
			}
		}
	}
	switch callee := target.(type) {
	case *ssa.Builtin:
		return f.execBuiltin(st, x, callee)
	case *ssa.Function:
		args := make([]Value, len(cc.Args))
		for i, a := range cc.Args {
			args[i] = f.lookup(st, a)
		}
		key := funcKey(callee)
		if c := vc.CS.Funcs[key]; c != nil {
			if c.Inline {
				if r, ok := f.inlineCall(st, x, callee, c, args); ok {
					return r
				}
			}
			var ptypes []types.Type
			for _, p := range callee.Params {
				ptypes = append(ptypes, p.Type())
			}
			return f.contractCall(st, x, c, callee, args, ptypes, callee.Signature.Results(), callee.Name())
		}
		// call-site assertions also apply to external and uncontracted callees
		f.callAsserts(st, x, callee.Name())
		if ext := lookupExternal(callee); ext != nil {
			r := f.externalCall(st, x, callee, ext, args)
			f.postAssumesNoContract(st, x, callee.Name(), r)
			return r
		}
		vc.havocAll(st, "call to "+key+" (no contract) in "+f.fn.Name())
		r := fresh()
		// assumptions stated about a callee without contract (listed as ASSUMED in the evidence)
		f.postAssumesNoContract(st, x, callee.Name(), r)
		return r
	}
	// a value of a named function type that has a contract
	if nt, ok := cc.Value.Type().(*types.Named); ok {
		if ftc := vc.CS.Funcs["functype:"+pkgShort(nt.Obj().Pkg())+"."+nt.Obj().Name()]; ftc != nil {
			sig := nt.Underlying().(*types.Signature)
			args := make([]Value, len(cc.Args))
			var ptypes []types.Type
			for i, a := range cc.Args {
				args[i] = f.lookup(st, a)
				ptypes = append(ptypes, sig.Params().At(i).Type())
			}
			vc.note("function values of type %s are assumed to satisfy its functype contract (the literals in this module are verified against it)", nt.Obj().Name())
			return f.contractCall(st, x, ftc, nil, args, ptypes, sig.Results(), nt.Obj().Name())
		}
	}
	// a function stored in a struct field that has an (assumed) field contract:
	//   //@ func fieldfunc:T.f(params) (results)   with "trusted interface contract ..."
	if key := funcFieldKey(cc.Value); key != "" {
		short := key
		if i := strings.LastIndex(key, "/"); i >= 0 {
			short = key[i+1:]
		}
		// fieldKey is "pkg.T.f"; the contract key is "<pkg>.fieldfunc:T.f"
		if j := strings.Index(short, "."); j >= 0 {
			if fc := vc.CS.Funcs[short[:j]+".fieldfunc:"+short[j+1:]]; fc != nil {
				if sig, ok := cc.Value.Type().Underlying().(*types.Signature); ok {
					args := make([]Value, len(cc.Args))
					var ptypes []types.Type
					for i, a := range cc.Args {
						args[i] = f.lookup(st, a)
						ptypes = append(ptypes, sig.Params().At(i).Type())
					}
					vc.note("the function stored in %s is assumed to satisfy its field contract", short)
					f.callAsserts(st, x, key[strings.LastIndex(key, ".")+1:])
					f.logFieldCall(st, key, cc)
					return f.contractCall(st, x, fc, nil, args, ptypes, sig.Results(), short[j+1:])
				}
			}
		}
	}
	// call through a function value: if the value was loaded from a struct field the
	// call is recorded in a ghost log (ncalls / callarg spec functions)
	if key := funcFieldKey(cc.Value); key != "" {
		// call-site assertions of the caller's contract, named by the field ("callassert op: ...")
		f.callAsserts(st, x, key[strings.LastIndex(key, ".")+1:])
	}
	vc.havocAll(st, "call through function value in "+f.fn.Name())
	if key := funcFieldKey(cc.Value); key != "" {
		f.logFieldCall(st, key, cc)
	}
	return fresh()
}

// logFieldCall records a call through a function-typed struct field in the ghost call log
// (ncalls / callarg spec functions).
func (f *Frame) logFieldCall(st *State, key string, cc *ssa.CallCommon) {
	vc := f.vc
	B := vc.B
	nk := "ghost:ncalls:" + key
	vc.heapSet(st, nk, B.Store(vc.heapGet(st, nk), B.Int(0), B.Add(B.Select(vc.heapGet(st, nk), B.Int(0)), B.Int(1))))
	for i, a := range cc.Args {
		ak := fmt.Sprintf("ghost:arg%d:%s", i+1, key)
		switch v := f.lookup(st, a).(type) {
		case VT:
			if v.T.sort == SInt {
				vc.heapSet(st, ak, B.Store(vc.heapGet(st, ak), B.Int(0), v.T))
			}
		case VPtr:
			if v.Cell == nil {
				vc.heapSet(st, ak, B.Store(vc.heapGet(st, ak), B.Int(0), v.Addr))
			}
		}
	}
}

// funcFieldKey: the called function value was loaded from struct field T.f.
func funcFieldKey(v ssa.Value) string {
	u, ok := v.(*ssa.UnOp)
	if !ok || u.Op != token.MUL {
		return ""
	}
	fa, ok := u.X.(*ssa.FieldAddr)
	if !ok {
		return ""
	}
	pt := fa.X.Type().Underlying().(*types.Pointer).Elem()
	return fieldKey(pt, fa.Field)
}

func (f *Frame) externalCall(st *State, x *ssa.Call, callee *ssa.Function, ext *externalSpec, args []Value) Value {
	vc := f.vc
	B := vc.B
	bbufStride = B.Big(pow2(48))
	vc.note("assumed: %s", ext.assumed)
	resT := x.Type()
	if !ext.pure {
		if len(ext.writes) == 0 {
			vc.havocAll(st, "external call "+callee.String())
		}
		for _, k := range ext.writes {
			vc.havocKey(st, k)
		}
	}
	switch ext.special {
	case "isnan":
		vc.ensureFloatFuns()
		return VT{B.App("f_isnan", args[0].(VT).T)}
	case "isinf":
		// math.IsInf(v, sign): sign > 0 asks for +Inf only, sign < 0 for -Inf only, 0 for either
		vc.ensureFloatFuns()
		v := args[0].(VT).T
		any := B.App("f_isinf", v)
		if len(args) < 2 {
			return VT{any}
		}
		sg, ok := args[1].(VT)
		if ok && sg.T.IsConst() && sg.T.ival.Sign() == 0 {
			return VT{any}
		}
		pos, neg := B.App("f_isposinf", v), B.App("f_isneginf", v)
		vc.fact(B.And(B.Eq(any, B.Or(pos, neg)), B.Not(B.And(pos, neg))))
		if !ok {
			return VT{B.Fresh("isinf", SBool)}
		}
		return VT{B.Ite(B.Gt(sg.T, B.Int(0)), pos, B.Ite(B.Lt(sg.T, B.Int(0)), neg, any))}
	case "bbuf.grow":
		return VTuple{}
	case "bbuf.len":
		b0 := ptrTerm(args[0])
		return VT{B.Select(vc.heapGet(st, "ghost:bbuf.len"), b0)}
	case "bbuf.bytes":
		b0 := ptrTerm(args[0])
		n := B.Select(vc.heapGet(st, "ghost:bbuf.len"), b0)
		vc.fact(B.Le(B.Int(0), n))
		r := vc.freshValue(f.prefix+x.Name(), resT).(VSlice)
		D := vc.heapGet(st, "ghost:bbuf.data")
		M := vc.heapGet(st, "M")
		k := B.BVar("bb", SInt)
		st.pc = B.And(st.pc, B.Eq(r.Len, n),
			B.Forall([]*Term{k}, B.Implies(B.And(B.Le(B.Int(0), k), B.Lt(k, n)), B.Eq(B.Select(M, B.Add(r.Ptr, k)), B.Select(D, B.Add(B.Mul(bbufStride, b0), k))))))
		return r
	case "bbuf.write":
		b0 := ptrTerm(args[0])
		p, _ := args[1].(VSlice)
		L := vc.heapGet(st, "ghost:bbuf.len")
		D := vc.heapGet(st, "ghost:bbuf.data")
		M := vc.heapGet(st, "M")
		n := B.Select(L, b0)
		vc.fact(B.Le(B.Int(0), n))
		D2 := B.Fresh(f.prefix+x.Name()+".bbuf", SArrII)
		k := B.BVar("bw", SInt)
		base := B.Mul(bbufStride, b0)
		in := B.And(B.Le(B.Add(base, n), k), B.Lt(k, B.Add(base, n, p.Len)))
		st.pc = B.And(st.pc, B.Forall([]*Term{k}, B.Eq(B.Select(D2, k), B.Ite(in, B.Select(M, B.Add(p.Ptr, B.Sub(k, B.Add(base, n)))), B.Select(D, k)))))
		vc.heapSet(st, "ghost:bbuf.data", D2)
		vc.heapSet(st, "ghost:bbuf.len", B.Store(L, b0, B.Add(n, p.Len)))
		return VTuple{[]Value{VT{p.Len}, VIface{B.Int(0), B.Int(0)}}}
	case "bytes.equal":
		a, aok := args[0].(VSlice)
		b2, bok := args[1].(VSlice)
		if aok && bok {
			M := vc.heapGet(st, "M")
			n := a.Len
			if b2.Len.IsConst() {
				n = b2.Len
			}
			if n.IsConst() && n.ival.IsInt64() && n.ival.Int64() <= 16 {
				cs := []*Term{B.Eq(a.Len, b2.Len)}
				for i := int64(0); i < n.ival.Int64(); i++ {
					cs = append(cs, B.Eq(vc.byteAt(M, B.Add(a.Ptr, B.Int(i))), vc.byteAt(M, B.Add(b2.Ptr, B.Int(i)))))
				}
				return VT{B.And(cs...)}
			}
			k := B.BVar("eq", SInt)
			return VT{B.And(B.Eq(a.Len, b2.Len), B.Forall([]*Term{k}, B.Implies(B.And(B.Le(B.Int(0), k), B.Lt(k, a.Len)), B.Eq(B.Select(M, B.Add(a.Ptr, k)), B.Select(M, B.Add(b2.Ptr, k))))))}
		}
	case "indexbyte":
		if sl, ok := args[0].(VSlice); ok {
			if cv, ok := args[1].(VT); ok {
				M := vc.heapGet(st, "M")
				r := B.Fresh(f.prefix+x.Name()+".idx", SInt)
				j := B.BVar("ib", SInt)
				before := B.Forall([]*Term{j}, B.Implies(B.And(B.Le(B.Int(0), j), B.Lt(j, B.Ite(B.Eq(r, B.Int(-1)), sl.Len, r))), B.Ne(B.Select(M, B.Add(sl.Ptr, j)), cv.T)))
				found := B.And(B.Le(B.Int(0), r), B.Lt(r, sl.Len), B.Eq(B.Select(M, B.Add(sl.Ptr, r)), cv.T))
				st.pc = B.And(st.pc, B.Or(B.Eq(r, B.Int(-1)), found), before)
				return VT{r}
			}
		}
	case "encoderune":
		// the destination bytes become unknown: both the heap copy and, when the argument is a slice of
		// a local array, the array cell itself
		if sl, ok := args[0].(VSlice); ok {
			M := vc.heapGet(st, "M")
			M2 := B.Fresh(f.prefix+x.Name()+".M", SArrII)
			k := B.BVar("er", SInt)
			st.pc = B.And(st.pc, B.Forall([]*Term{k}, B.Implies(B.Or(B.Lt(k, sl.Ptr), B.Le(B.Add(sl.Ptr, B.Int(4)), k)), B.Eq(B.Select(M2, k), B.Select(M, k)))))
			vc.heapSet(st, "M", M2)
		}
		if si, ok := x.Common().Args[0].(*ssa.Slice); ok {
			if pv, ok := f.lookup(st, si.X).(VPtr); ok && pv.Cell != nil && pv.Cell.Bytes {
				fresh := B.Fresh(f.prefix+x.Name()+".cell", SArrII)
				st.cells[pv.Cell.ID+"#"] = VT{fresh}
				for i := int64(0); i < 4; i++ {
					vc.fact(B.And(B.Le(B.Int(0), B.Select(fresh, B.Int(i))), B.Le(B.Select(fresh, B.Int(i)), B.Int(255))))
				}
			}
		}
		r := B.Fresh(f.prefix+x.Name()+".n", SInt)
		vc.fact(B.And(B.Le(B.Int(1), r), B.Le(r, B.Int(4))))
		return VT{r}
	case "tz":
		bits, _, _ := intInfo(callee.Params[0].Type())
		a := args[0].(VT).T
		fn := fmt.Sprintf("u_tz%d", bits)
		B.DefineFun(fn, []Sort{SInt}, SInt, "", nil)
		r := VT{B.App(fn, a)}
		vc.fact(B.And(B.Le(B.Int(0), r.T), B.Le(r.T, B.Int(int64(bits)))))
		vc.fact(B.Eq(B.Eq(r.T, B.Int(int64(bits))), B.Eq(a, B.Int(0))))
		if bits <= 16 {
			// the trailing-zero count names the lowest set bit
			for i := uint(0); i < bits; i++ {
				bit := B.Eq(B.Mod(B.Div(a, B.Big(pow2(i))), B.Int(2)), B.Int(1))
				lowerZero := B.Eq(B.Mod(a, B.Big(pow2(i))), B.Int(0))
				vc.fact(B.Eq(B.Eq(r.T, B.Int(int64(i))), B.And(bit, lowerZero)))
			}
		}
		return r
	}
	if tu, ok := resT.(*types.Tuple); ok && tu.Len() == 0 {
		return VTuple{}
	}
	r := vc.freshValue(f.prefix+x.Name(), resT)
	if ext.nonNil {
		vc.assumeNonNil(r, resT)
	}
	return r
}

var bbufStride *Term

func ptrTerm(v Value) *Term {
	switch p := v.(type) {
	case VT:
		return p.T
	case VPtr:
		if p.Cell == nil {
			return p.Addr
		}
	}
	return nil
}

func (vc *VC) assumeNonNil(r Value, t types.Type) {
	B := vc.B
	switch v := r.(type) {
	case VIface:
		vc.fact(B.Gt(v.Typ, B.Int(0)))
	case VT:
		if isPointerLike(t) {
			vc.fact(B.Gt(v.T, B.Int(0)))
		}
	case VTuple:
		if tu, ok := t.(*types.Tuple); ok {
			for i, e := range v.Elems {
				et := tu.At(i).Type()
				if _, isIface := et.Underlying().(*types.Interface); isIface && et.String() == "error" {
					vc.assumeNonNil(e, et)
				}
			}
		}
	}
}

// callAsserts: obligations the caller's contract states for this call site.
func (f *Frame) callAsserts(st *State, x *ssa.Call, name string) {
	if f.c == nil || !f.top {
		return
	}
	for _, ca := range f.c.CallAsserts[name] {
		if len(ca.Props) > 0 && f.vc.prop != "" && !clauseHasProp(ca, f.c, f.vc.prop) {
			continue
		}
		actx := f.newCtx(st, f.entry)
		actx.at = x.Block()
		actx.atEnd = true
		// arg0, arg1, ... name the actual arguments of this call (receiver first for methods)
		cc := x.Common()
		n := 0
		if cc.IsInvoke() {
			actx.names["arg0"] = CV{f.lookup(st, cc.Value), cc.Value.Type()}
			n = 1
		}
		for i, a := range cc.Args {
			actx.names[fmt.Sprintf("arg%d", i+n)] = CV{f.lookup(st, a), a.Type()}
		}
		g, err := actx.evalBoolSafe(ca.E)
		if err != nil {
			f.oblige(st, "call-assert", name, "call-site assertion cannot be evaluated: "+err.Error(), x.Pos(), f.vc.B.False(), ca)
			continue
		}
		f.oblige(st, "call-assert", name, "at the call to "+name+": "+ca.Text, x.Pos(), g, ca)
	}
}

// inlineCall executes the callee body in place (only for contracts marked inline).
func (f *Frame) inlineCall(st *State, x *ssa.Call, callee *ssa.Function, c *Contract, args []Value) (Value, bool) {
	vc := f.vc
	if vc.depth > 6 || len(callee.Blocks) == 0 {
		return nil, false
	}
	vc.depth++
	defer func() { vc.depth-- }()
	sub := vc.newFrame(callee, c, false)
	f.callCount[callee.Name()]++
	base := f.oblPrefix
	if base == "" {
		base = funcKey(f.fn)
	}
	sub.oblPrefix = fmt.Sprintf("%s/inl:%s", base, callee.Name())
	rst, vals, err := sub.run(st.clone(), args)
	if err != nil {
		vc.note("inline of %s failed: %v", callee.Name(), err)
		return nil, false
	}
	if rst == nil {
		// callee never returns (panics): this path ends
		st.pc = vc.B.False()
		return vc.freshValue(f.prefix+x.Name(), x.Type()), true
	}
	// continue the caller in the callee's exit state
	st.pc, st.heap, st.epoch, st.fidx = rst.pc, rst.heap, rst.epoch, rst.fidx
	for k, v := range rst.cells {
		st.cells[k] = v
	}
	switch len(vals) {
	case 0:
		return VTuple{}, true
	case 1:
		return vals[0], true
	}
	return VTuple{vals}, true
}

// contractCall replaces a call by the callee's contract.
func (f *Frame) contractCall(st *State, x *ssa.Call, c *Contract, callee *ssa.Function, args []Value, ptypes []types.Type, results *types.Tuple, name string) Value {
	vc := f.vc
	B := vc.B
	ctx := f.newCtx(st, nil)
	ctx.names = map[string]CV{}
	if len(c.Params) != len(args) {
		vc.note("contract %s: parameter count mismatch (%d vs %d); call havocked", c.Key, len(c.Params), len(args))
		vc.havocAll(st, "contract parameter mismatch for "+c.Key)
		return vc.freshValue(f.prefix+x.Name(), x.Type())
	}
	for i, p := range c.Params {
		ctx.names[p] = CV{args[i], ptypes[i]}
	}
	calleeFrame := f
	if callee != nil {
		// resolve package-level names in the callee's package
		calleeFrame = &Frame{vc: vc, fn: callee, genv: f.genv, prefix: f.prefix, names: map[string]CV{}, callCount: f.callCount, idxCount: f.idxCount, oblPrefix: f.oblPrefix, c: f.c}
	}
	ctx.f = calleeFrameFor(calleeFrame, f)
	ctx.pkg = c.Pkg
	f.callCount[name]++
	for _, l := range c.Lets {
		ctx.names[l.Name] = ctx.evalLet(l)
	}
	if f.c != nil && f.top {
		f.callAsserts(st, x, name)
		for _, ca := range f.c.CallAssumes[name] {
			actx := f.newCtx(st, f.entry)
			actx.at = x.Block()
			actx.atEnd = true
			cc := x.Common()
			n := 0
			if cc.IsInvoke() {
				actx.names["arg0"] = CV{f.lookup(st, cc.Value), cc.Value.Type()}
				n = 1
			}
			for i, a := range cc.Args {
				actx.names[fmt.Sprintf("arg%d", i+n)] = CV{f.lookup(st, a), a.Type()}
			}
			g, err := actx.evalBoolSafe(ca.E)
			if err != nil {
				vc.note("call-site assumption cannot be evaluated: %v", err)
				continue
			}
			st.pc = B.And(st.pc, g)
			vc.note("ASSUMED at the call to %s in %s: %s", name, f.c.Key, ca.Text)
		}
	}
	for _, gp := range c.GhostParams {
		var cl *Clause
		if f.c != nil && f.c.CallGhosts[name] != nil {
			cl = f.c.CallGhosts[name][gp]
		}
		if cl == nil {
			f.oblige(st, "call-ghost", name, fmt.Sprintf("ghost parameter %s of %s is not supplied by the caller (callghost)", gp, c.Key), x.Pos(), B.False(), nil)
			ctx.names[gp] = CV{VT{B.Fresh(f.prefix+x.Name()+"_ghostarg_"+gp, SInt)}, nil}
			continue
		}
		actx := f.newCtx(st, f.entry)
		actx.at = x.Block()
		actx.atEnd = true
		cc := x.Common()
		for i, a := range cc.Args {
			actx.names[fmt.Sprintf("arg%d", i)] = CV{f.lookup(st, a), a.Type()}
		}
		t, err := actx.evalIntSafe(cl.E)
		if err != nil {
			f.oblige(st, "call-ghost", name, fmt.Sprintf("ghost argument %s cannot be evaluated: %v", cl.Text, err), x.Pos(), B.False(), nil)
			t = B.Fresh(f.prefix+x.Name()+"_ghostarg_"+gp, SInt)
		}
		ctx.names[gp] = CV{VT{t}, nil}
	}
	assumedPre := ""
	if f.c != nil && f.top {
		if r, ok := f.c.AssumeCalls[name]; ok {
			assumedPre = r
			vc.note("ASSUMED in %s: the preconditions of %s hold at its call sites (%s)", f.c.Key, c.Key, r)
		}
	}
	for i, cl := range c.Requires {
		if isGlobalInv(cl) {
			continue // data-structure invariant: maintained by its only writers, not a caller obligation
		}
		if assumedPre != "" {
			continue // not proved here and not added to the path condition either (no vacuity risk)
		}
		g, err := ctx.evalBoolSafe(cl.E)
		if err != nil {
			f.oblige(st, "call-pre", name, fmt.Sprintf("precondition %d of %s cannot be evaluated: %v", i+1, c.Key, err), x.Pos(), B.False(), nil)
			continue
		}
		f.oblige(st, "call-pre", name, fmt.Sprintf("precondition of %s: %s", c.Key, cl.Text), x.Pos(), g, nil)
	}
	// termination of (mutual) recursion: the callee's measure is smaller than the caller's
	if f.top && f.c != nil && f.c.Measure != nil && c.Measure != nil {
		callerCtx := f.newCtx(f.entry, f.entry)
		mCaller, err1 := callerCtx.evalIntSafe(f.c.Measure.E)
		mCallee, err2 := ctx.evalIntSafe(c.Measure.E)
		if err1 != nil || err2 != nil {
			f.oblige(st, "measure", name, "termination measure cannot be evaluated", x.Pos(), B.False(), c.Measure)
		} else {
			f.oblige(st, "measure", name, fmt.Sprintf("recursion terminates: %s of the callee is smaller than %s of the caller and not negative", c.Measure.Text, f.c.Measure.Text),
				x.Pos(), B.And(B.Le(B.Int(0), mCallee), B.Lt(mCallee, mCaller)), c.Measure)
		}
	}
	pre := st.clone()
	preRegions := append([]Region{}, vc.regions...)
	ms := newModSet()
	for _, a := range c.Assigns {
		vc.assignEntryClasses(a, c, ms)
	}
	f.applyModsTagged(st, ms, "cv_")
	// results
	var rvals []Value
	for i := 0; i < results.Len(); i++ {
		rv := vc.freshValue(fmt.Sprintf("%s%s_%s.r%d", f.prefix, x.Name(), name, i), results.At(i).Type())
		rvals = append(rvals, rv)
		if i < len(c.Results) {
			ctx.names[c.Results[i]] = CV{rv, results.At(i).Type()}
		}
	}
	if results.Len() == 1 {
		ctx.names["result"] = CV{rvals[0], results.At(0).Type()}
	}
	for _, g := range c.Ghosts {
		// ghost results are existential witnesses: fresh symbols constrained by the postconditions
		ctx.names[g.Name] = CV{VT{B.Fresh(fmt.Sprintf("%s%s_%s.ghost_%s", f.prefix, x.Name(), name, g.Name), SInt)}, nil}
	}
	// "assigns fresh": every object known to the caller before the call keeps its bytes
	for _, a := range c.Assigns {
		if a == "fresh" {
			k := B.BVar("fr", SInt)
			var in []*Term
			for _, r := range preRegions {
				in = append(in, B.And(B.Le(r.Base, k), B.Lt(k, B.Add(r.Base, r.Size))))
			}
			Mpre, Mpost := vc.heapGet(pre, "M"), vc.heapGet(st, "M")
			st.pc = B.And(st.pc, B.Forall([]*Term{k}, B.Implies(B.Or(in...), B.Eq(B.Select(Mpost, k), B.Select(Mpre, k)))))
		}
	}
	// frame conditions of the form M[lo..hi): bytes outside keep their value (bounds may mention results)
	for _, a := range c.Assigns {
		if strings.HasPrefix(a, "M[") {
			fctx := *ctx
			fctx.st = st
			fctx.old = pre
			f.assumeMFrame(&fctx, pre, st, a)
		}
	}
	ctx.st = st
	ctx.old = pre
	ctx.declareRegions = true // region(...) in an assumed postcondition declares memory the callee hands back
	for _, cl := range c.Ensures {
		if isUnverified(cl) {
			continue
		}
		g, err := ctx.evalBoolSafe(cl.E)
		if err != nil {
			vc.note("postcondition of %s cannot be evaluated at call site: %v", c.Key, err)
			continue
		}
		st.pc = B.And(st.pc, g)
	}
	if c.Trusted != "" {
		vc.note("trusted contract: %s (%s)", c.Key, c.Trusted)
	}
	if f.c != nil && f.top {
		for _, ca := range f.c.PostAssumes[name] {
			actx := f.newCtx(st, f.entry)
			actx.at = x.Block()
			actx.atEnd = true
			if len(rvals) == 1 {
				actx.names["result"] = CV{rvals[0], results.At(0).Type()}
			}
			g, err := actx.evalBoolSafe(ca.E)
			if err != nil {
				vc.note("post-call assumption cannot be evaluated: %v", err)
				continue
			}
			st.pc = B.And(st.pc, g)
			vc.note("ASSUMED after the call to %s in %s: %s", name, f.c.Key, ca.Text)
		}
	}
	switch len(rvals) {
	case 0:
		return VTuple{}
	case 1:
		return rvals[0]
	}
	return VTuple{rvals}
}

// postAssumesNoContract: "postassume m: e" also applies to calls that have no contract (interface
// methods implemented by user code); result0, result1, .. name the components of the result.
func (f *Frame) postAssumesNoContract(st *State, x *ssa.Call, name string, r Value) {
	if f.c == nil || !f.top {
		return
	}
	vc := f.vc
	for _, ca := range f.c.PostAssumes[name] {
		actx := f.newCtx(st, f.entry)
		actx.at = x.Block()
		actx.atEnd = true
		actx.declareRegions = true // region(...) in an assumption about the result declares memory the callee hands back
		if tu, ok := x.Type().(*types.Tuple); ok {
			if vt, ok := r.(VTuple); ok {
				for i := 0; i < tu.Len() && i < len(vt.Elems); i++ {
					actx.names[fmt.Sprintf("result%d", i)] = CV{vt.Elems[i], tu.At(i).Type()}
				}
			}
		} else {
			actx.names["result"] = CV{r, x.Type()}
			actx.names["result0"] = CV{r, x.Type()}
		}
		g, err := actx.evalBoolSafe(ca.E)
		if err != nil {
			vc.note("post-call assumption cannot be evaluated: %v", err)
			continue
		}
		st.pc = vc.B.And(st.pc, g)
		vc.note("ASSUMED after the call to %s in %s: %s", name, f.c.Key, ca.Text)
	}
}

func calleeFrameFor(calleeFrame, caller *Frame) *Frame { return calleeFrame }

func (c *EvalCtx) evalLet(l *SpecMacro) (cv CV) {
	defer func() {
		if r := recover(); r != nil {
			if _, ok := r.(evalError); ok {
				cv = CV{}
				return
			}
			panic(r)
		}
	}()
	return c.eval(l.Body)
}

// assumeMFrame: assigns "M[lo..hi)" – bytes outside [lo,hi) keep their value.
func (f *Frame) assumeMFrame(ctx *EvalCtx, pre, post *State, a string) {
	vc := f.vc
	B := vc.B
	body := strings.TrimSuffix(strings.TrimPrefix(a, "M["), ")")
	parts := strings.SplitN(body, "..", 2)
	if len(parts) != 2 {
		return
	}
	loE, err1 := parseExpr(parts[0], "assigns")
	hiE, err2 := parseExpr(parts[1], "assigns")
	if err1 != nil || err2 != nil {
		vc.note("cannot parse frame %q", a)
		return
	}
	sub := *ctx
	lo, e1 := sub.evalIntSafe(loE)
	hi, e2 := sub.evalIntSafe(hiE)
	if e1 != nil || e2 != nil {
		vc.note("cannot evaluate frame %q", a)
		return
	}
	k := B.BVar("fr", SInt)
	Mpre, Mpost := vc.heapGet(pre, "M"), vc.heapGet(post, "M")
	post.pc = B.And(post.pc, B.Forall([]*Term{k}, B.Implies(B.Or(B.Lt(k, lo), B.Ge(k, hi)), B.Eq(B.Select(Mpost, k), B.Select(Mpre, k)))))
}

// checkAssigns: a store in a function under contract must be covered by its assigns clause.
func (f *Frame) checkAssigns(st *State, addr *Term, key string, t types.Type, pos token.Pos) {
	if !f.top || f.c == nil || !f.c.HasAssigns {
		return
	}
	vc := f.vc
	allowed := newModSet()
	for _, a := range f.c.Assigns {
		vc.assignEntryClasses(a, f.c, allowed)
	}
	if allowed.all {
		return
	}
	// stores into objects allocated by this call are always allowed
	written := map[string]bool{}
	storeClasses(key, t, written)
	for k := range written {
		if !allowed.keys[k] {
			B := vc.B
			// allowed if the address lies in a region allocated during this call
			var alts []*Term
			for _, r := range vc.regions {
				if r.What == "alloc" {
					alts = append(alts, B.And(B.Le(r.Base, addr), B.Lt(addr, B.Add(r.Base, r.Size))))
				}
			}
			f.oblige(st, "assigns", k, "store to heap class "+k+" is permitted by the assigns clause (or targets memory allocated in this call)", pos, B.Or(alts...), nil)
		}
	}
}

// ---------------------------------------------------------------- builtins

func (f *Frame) execBuiltin(st *State, x *ssa.Call, bi *ssa.Builtin) Value {
	vc := f.vc
	B := vc.B
	cc := x.Common()
	arg := func(i int) Value { return f.lookup(st, cc.Args[i]) }
	switch bi.Name() {
	case "len":
		switch v := arg(0).(type) {
		case VSlice:
			return VT{v.Len}
		case VString:
			return VT{v.Len}
		case VTuple:
			return VT{B.Int(int64(len(v.Elems)))}
		}
		if a, ok := cc.Args[0].Type().Underlying().(*types.Array); ok {
			return VT{B.Int(a.Len())}
		}
		if p, ok := cc.Args[0].Type().Underlying().(*types.Pointer); ok {
			if a, ok := p.Elem().Underlying().(*types.Array); ok {
				return VT{B.Int(a.Len())}
			}
		}
		r := vc.freshValue(f.prefix+x.Name(), x.Type()).(VT)
		vc.fact(B.Le(B.Int(0), r.T))
		return r
	case "cap":
		if v, ok := arg(0).(VSlice); ok {
			return VT{v.Cap}
		}
		r := vc.freshValue(f.prefix+x.Name(), x.Type()).(VT)
		vc.fact(B.Le(B.Int(0), r.T))
		return r
	case "append":
		return f.execAppend(st, x)
	case "copy":
		return f.execCopy(st, x)
	case "min", "max":
		a, aok := arg(0).(VT)
		b, bok := arg(1).(VT)
		if aok && bok && len(cc.Args) == 2 && !isFloat(x.Type()) {
			if bi.Name() == "min" {
				return VT{B.Ite(B.Le(a.T, b.T), a.T, b.T)}
			}
			return VT{B.Ite(B.Ge(a.T, b.T), a.T, b.T)}
		}
	case "delete", "print", "println", "clear":
		return VTuple{}
	case "ssa:wrapnilchk":
		return arg(0)
	}
	return vc.freshValue(f.prefix+x.Name(), x.Type())
}

// execAppend: both outcomes are modelled — in place when the capacity suffices
// (writes through to the shared backing array), else a fresh disjoint array.
func (f *Frame) execAppend(st *State, x *ssa.Call) Value {
	vc := f.vc
	B := vc.B
	cc := x.Common()
	s, ok := f.lookup(st, cc.Args[0]).(VSlice)
	if !ok {
		return vc.freshValue(f.prefix+x.Name(), x.Type())
	}
	et := x.Type().Underlying().(*types.Slice).Elem()
	es := sizeOf(et)
	var srcPtr, n *Term
	switch v := f.lookup(st, cc.Args[1]).(type) {
	case VSlice:
		srcPtr, n = v.Ptr, v.Len
	case VString:
		srcPtr, n = v.Ptr, v.Len
	default:
		return vc.freshValue(f.prefix+x.Name(), x.Type())
	}
	newLen := B.Add(s.Len, n)
	inPlace := B.Le(newLen, s.Cap)
	np := B.Fresh(f.prefix+x.Name()+".ptr", SInt)
	nc := B.Fresh(f.prefix+x.Name()+".cap", SInt)
	rp := B.Ite(inPlace, s.Ptr, np)
	rc := B.Ite(inPlace, s.Cap, nc)
	vc.fact(B.And(B.Le(newLen, nc), B.Lt(nc, B.Big(maxAddr)), B.Lt(B.Int(0), np), B.Le(B.Add(np, B.Mul(B.Int(es), nc)), B.Big(maxAddr))))
	vc.freshRegion(st, np, B.Mul(B.Int(es), nc))
	res := VSlice{rp, newLen, rc}
	if es == 1 {
		// The new byte heap M2 is characterised by three frame facts instead of one nested
		// definition: (F1) the old elements are where the result starts, (F2) the appended bytes
		// follow, (F3) nothing outside [rp, rp+newLen) changed. Together they determine M2.
		M := vc.heapGet(st, "M")
		M2 := B.Fresh(f.prefix+x.Name()+".M", SArrII)
		k := B.BVar("ap", SInt)
		vc.fact(B.Forall([]*Term{k}, B.Implies(B.And(B.Le(B.Int(0), k), B.Lt(k, s.Len)),
			B.Eq(B.Select(M2, B.Add(rp, k)), B.Select(M, B.Add(s.Ptr, k))))))
		vc.fact(B.Forall([]*Term{k}, B.Implies(B.Or(B.Lt(k, rp), B.Le(B.Add(rp, newLen), k)),
			B.Eq(B.Select(M2, k), B.Select(M, k)))))
		var explicit func(n *Term) *Term
		explicit = func(n *Term) *Term {
			if n.IsConst() && n.ival.IsInt64() && n.ival.Int64() <= 32 {
				var cs []*Term
				for i := int64(0); i < n.ival.Int64(); i++ {
					cs = append(cs, B.Eq(B.Select(M2, B.Add(rp, s.Len, B.Int(i))), vc.byteAt(M, B.Add(srcPtr, B.Int(i)))))
				}
				return B.And(cs...)
			}
			if n.op == "ite" && iteConst(n) {
				a, b2 := explicit(n.args[1]), explicit(n.args[2])
				if a != nil && b2 != nil {
					return B.Ite(n.args[0], a, b2)
				}
			}
			return nil
		}
		if e := explicit(n); e != nil {
			vc.fact(e)
		} else {
			vc.fact(B.Forall([]*Term{k}, B.Implies(B.And(B.Le(B.Int(0), k), B.Lt(k, n)),
				B.Eq(B.Select(M2, B.Add(rp, s.Len, k)), B.Select(M, B.Add(srcPtr, k))))))
		}
		vc.heapSet(st, "M", M2)
	} else {
		out := map[string]bool{}
		storeClasses("", et, out)
		for k := range out {
			vc.havocKey(st, k)
		}
		vc.note("append on %s: element contents are opaque", typeKey(et))
	}
	return res
}

func (f *Frame) execCopy(st *State, x *ssa.Call) Value {
	vc := f.vc
	B := vc.B
	cc := x.Common()
	d, ok := f.lookup(st, cc.Args[0]).(VSlice)
	if !ok {
		return vc.freshValue(f.prefix+x.Name(), x.Type())
	}
	var srcPtr, sn *Term
	switch v := f.lookup(st, cc.Args[1]).(type) {
	case VSlice:
		srcPtr, sn = v.Ptr, v.Len
	case VString:
		srcPtr, sn = v.Ptr, v.Len
	default:
		return vc.freshValue(f.prefix+x.Name(), x.Type())
	}
	et := cc.Args[0].Type().Underlying().(*types.Slice).Elem()
	es := sizeOf(et)
	n := B.Ite(B.Le(d.Len, sn), d.Len, sn)
	if es == 1 {
		M := vc.heapGet(st, "M")
		M2 := B.Fresh(f.prefix+x.Name()+".M", SArrII)
		k := B.BVar("cp", SInt)
		in := B.And(B.Le(d.Ptr, k), B.Lt(k, B.Add(d.Ptr, n)))
		vc.fact(B.Forall([]*Term{k}, B.Eq(B.Select(M2, k), B.Ite(in, B.Select(M, B.Add(srcPtr, B.Sub(k, d.Ptr))), B.Select(M, k)))))
		vc.heapSet(st, "M", M2)
	} else {
		out := map[string]bool{}
		storeClasses("", et, out)
		for k := range out {
			vc.havocKey(st, k)
		}
		vc.note("copy on %s: element contents are opaque", typeKey(et))
	}
	return VT{n}
}
