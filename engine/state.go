package main

import (
	"fmt"
	"strings"
	"go/types"
	"math/big"

	"golang.org/x/tools/go/ssa"
)

// ---------------------------------------------------------------- state

type State struct {
	pc    *Term
	heap  map[string]*Term // written heap classes since the epoch began
	epoch int
	cells map[string]Value
	lenv  map[ssa.Value]Value // instances of values defined inside an unrolled loop
	dead  bool
	fidx  []int // indices of facts created along the paths leading to this state
}

func (s *State) clone() *State {
	n := &State{pc: s.pc, epoch: s.epoch, heap: make(map[string]*Term, len(s.heap)), cells: make(map[string]Value, len(s.cells)), lenv: make(map[ssa.Value]Value, len(s.lenv))}
	for k, v := range s.heap {
		n.heap[k] = v
	}
	for k, v := range s.cells {
		n.cells[k] = v
	}
	for k, v := range s.lenv {
		n.lenv[k] = v
	}
	n.fidx = append([]int(nil), s.fidx...)
	return n
}

type epochMerge struct {
	cond   *Term
	e1, e2 int
}

type Region struct {
	Own        *Term // extent used for disjointness from later allocations (capacity); nil = Size
	Base, Size *Term
	What       string
	Writable   bool
}

// VC is the verification context of one top-level function (one split case).
type VC struct {
	P       *Program
	CS      *ContractSet
	B       *Builder
	fn      *ssa.Function
	c       *Contract
	prop    string
	facts   []*Term
	obls    []*Obligation
	notes   map[string]bool
	regions []Region
	epochs  map[int]epochMerge
	nEpoch  int
	nFrame  int
	nCell   int
	caseTag string
	sortOf  map[string]Sort
	depth   int
	modelVars []*Term
	typeIDs map[string]int
	strConsts map[string]*Term
	counters map[string]int
	factSeen map[*Term]bool
	restOf   *SplitSpec
	smallHints []*Term
	cur       *State
	baseFacts []int
	factIndex map[*Term]int
	varMemo   map[*Term]*big.Int
	varIDs    map[*Term]int
	swarDone  map[string]bool
	cleanVars map[*Term]bool
	products  []prodRec
	ghostParent map[int]int
	modelTerms []modelTerm
}

type modelTerm struct {
	name string
	t    *Term
}

type Obligation struct {
	Name   string
	Kind   string
	Func   string
	Text   string
	Pos    string
	Props  []string
	Hyps   []*Term
	Goal   *Term
	NFacts int
	FIdx   []int
	vc     *VC
	Res    SolveResult
	Cover  bool // expect sat (reachability cover)
	RawScript string // complete SMT script (bit-vector lemmas); expect unsat
	qfOnly bool
	wantInst bool
	instAsserts []*Term
	droppedQuant bool
	Clause *Clause
}

func (vc *VC) note(format string, args ...interface{}) {
	vc.notes[fmt.Sprintf(format, args...)] = true
}

func (vc *VC) fact(t *Term) {
	if t.IsTrue() || t.bound {
		return
	}
	if vc.factSeen[t] {
		if i, ok := vc.factIndex[t]; ok && vc.cur != nil {
			vc.cur.fidx = append(vc.cur.fidx, i)
		}
		return
	}
	vc.factIndex[t] = len(vc.facts)
	vc.factSeen[t] = true
	vc.facts = append(vc.facts, t)
	if vc.cur != nil {
		vc.cur.fidx = append(vc.cur.fidx, len(vc.facts)-1)
	} else {
		vc.baseFacts = append(vc.baseFacts, len(vc.facts)-1)
	}
}

func (vc *VC) newEpoch() int {
	vc.nEpoch++
	return vc.nEpoch
}

func (vc *VC) heapSort(key string) Sort {
	if s, ok := vc.sortOf[key]; ok {
		return s
	}
	if _, ok := boolClasses.Load(key); ok {
		return SArrIB
	}
	return SArrII
}

// epochVar is the content of heap class key in a state that has not written it
// since its epoch began.
func (vc *VC) epochVar(epoch int, key string) *Term {
	if strings.HasPrefix(key, "ghost:") {
		// ghost classes are not affected by havoc: resolve through to the original epoch
		for {
			if _, merged := vc.epochs[epoch]; merged {
				break
			}
			p, ok := vc.ghostParent[epoch]
			if !ok {
				break
			}
			epoch = p
		}
	}
	if m, ok := vc.epochs[epoch]; ok {
		a := vc.epochVar(m.e1, key)
		b := vc.epochVar(m.e2, key)
		return vc.B.Ite(m.cond, a, b)
	}
	return vc.B.Var(fmt.Sprintf("H%d_%s", epoch, shortKey(key)), vc.heapSort(key))
}

func (vc *VC) heapGet(st *State, key string) *Term {
	if t, ok := st.heap[key]; ok {
		return t
	}
	return vc.epochVar(st.epoch, key)
}

func (vc *VC) heapSet(st *State, key string, t *Term) { st.heap[key] = t }

func (vc *VC) havocAll(st *State, why string) {
	keep := map[string]*Term{}
	for k, v := range st.heap {
		if strings.HasPrefix(k, "ghost:") {
			keep[k] = v
		}
	}
	// ghost classes never written so far keep their epoch value as well
	oldEpoch := st.epoch
	st.heap = keep
	st.epoch = vc.newEpoch()
	vc.ghostParent[st.epoch] = oldEpoch
	vc.note("havoc of all heap classes: %s", why)
}

func (vc *VC) havocKey(st *State, key string) {
	st.heap[key] = vc.B.Fresh("hv_"+shortKey(key), vc.heapSort(key))
}

// ---------------------------------------------------------------- value merging

func (vc *VC) mergeValue(c *Term, a, b Value) Value {
	if a == nil || b == nil {
		return nil
	}
	B := vc.B
	switch x := a.(type) {
	case VT:
		switch y := b.(type) {
		case VT:
			if x.T.sort != y.T.sort {
				return nil
			}
			return VT{B.Ite(c, x.T, y.T)}
		case VPtr:
			if t := vc.ptrAddr(y); t != nil {
				return VT{B.Ite(c, x.T, t)}
			}
		}
	case VSlice:
		if y, ok := b.(VSlice); ok {
			return VSlice{B.Ite(c, x.Ptr, y.Ptr), B.Ite(c, x.Len, y.Len), B.Ite(c, x.Cap, y.Cap)}
		}
	case VString:
		if y, ok := b.(VString); ok {
			return VString{B.Ite(c, x.Ptr, y.Ptr), B.Ite(c, x.Len, y.Len)}
		}
	case VIface:
		if y, ok := b.(VIface); ok {
			return VIface{B.Ite(c, x.Typ, y.Typ), B.Ite(c, x.Data, y.Data)}
		}
	case VTuple:
		if y, ok := b.(VTuple); ok && len(x.Elems) == len(y.Elems) {
			out := make([]Value, len(x.Elems))
			for i := range out {
				out[i] = vc.mergeValue(c, x.Elems[i], y.Elems[i])
			}
			return VTuple{out}
		}
	case VPtr:
		switch y := b.(type) {
		case VPtr:
			if x.Cell != nil || y.Cell != nil {
				if x.Cell == y.Cell && x.Off == y.Off {
					if x.Dyn == y.Dyn {
						return x
					}
					dx, dy := x.Dyn, y.Dyn
					if dx == nil {
						dx = B.Int(0)
					}
					if dy == nil {
						dy = B.Int(0)
					}
					return VPtr{Cell: x.Cell, Off: x.Off, Dyn: B.Ite(c, dx, dy)}
				}
				return nil
			}
			if x.Key == y.Key {
				return VPtr{Addr: B.Ite(c, x.Addr, y.Addr), Key: x.Key, Raw: x.Raw || y.Raw}
			}
			return VT{B.Ite(c, x.Addr, y.Addr)}
		case VT:
			if t := vc.ptrAddr(x); t != nil {
				return VT{B.Ite(c, t, y.T)}
			}
		}
	}
	return nil
}

func (vc *VC) ptrAddr(p VPtr) *Term {
	if p.Cell != nil {
		return nil
	}
	return p.Addr
}

func valueEq(a, b Value) bool {
	switch x := a.(type) {
	case VT:
		y, ok := b.(VT)
		return ok && x.T == y.T
	case VSlice:
		y, ok := b.(VSlice)
		return ok && x == y
	case VString:
		y, ok := b.(VString)
		return ok && x == y
	case VIface:
		y, ok := b.(VIface)
		return ok && x == y
	case VPtr:
		y, ok := b.(VPtr)
		return ok && x == y
	case VTuple:
		y, ok := b.(VTuple)
		if !ok || len(x.Elems) != len(y.Elems) {
			return false
		}
		for i := range x.Elems {
			if !valueEq(x.Elems[i], y.Elems[i]) {
				return false
			}
		}
		return true
	}
	return false
}

// mergeStates joins states under their path conditions (each st.pc is the full
// condition of reaching the join along that edge).
func (vc *VC) mergeStates(in []*State) *State {
	if len(in) == 1 {
		return in[0]
	}
	B := vc.B
	acc := in[0]
	for _, s := range in[1:] {
		c := acc.pc // choose acc's values when acc.pc holds
		n := &State{heap: map[string]*Term{}, cells: map[string]Value{}, lenv: map[ssa.Value]Value{}}
		n.pc = B.Or(acc.pc, s.pc)
		if acc.epoch == s.epoch {
			n.epoch = acc.epoch
		} else {
			n.epoch = vc.newEpoch()
			vc.epochs[n.epoch] = epochMerge{cond: c, e1: acc.epoch, e2: s.epoch}
		}
		keys := map[string]bool{}
		for k := range acc.heap {
			keys[k] = true
		}
		for k := range s.heap {
			keys[k] = true
		}
		for k := range keys {
			a := vc.heapGet(acc, k)
			b := vc.heapGet(s, k)
			n.heap[k] = B.Ite(c, a, b)
		}
		for k, av := range acc.cells {
			if bv, ok := s.cells[k]; ok {
				if valueEq(av, bv) {
					n.cells[k] = av
				} else if m := vc.mergeValue(c, av, bv); m != nil {
					n.cells[k] = m
				}
			} else {
				n.cells[k] = av
			}
		}
		for k, bv := range s.cells {
			if _, ok := acc.cells[k]; !ok {
				n.cells[k] = bv
			}
		}
		for k, av := range acc.lenv {
			if bv, ok := s.lenv[k]; ok {
				if valueEq(av, bv) {
					n.lenv[k] = av
				} else if m := vc.mergeValue(c, av, bv); m != nil {
					n.lenv[k] = m
				}
			} else {
				n.lenv[k] = av
			}
		}
		for k, bv := range s.lenv {
			if _, ok := acc.lenv[k]; !ok {
				n.lenv[k] = bv
			}
		}
		n.fidx = append(append([]int(nil), acc.fidx...), s.fidx...)
		acc = n
	}
	return acc
}

// ---------------------------------------------------------------- typed memory access

func (vc *VC) rangeFact(t *Term, typ types.Type) {
	if bits, signed, ok := intInfo(typ); ok && !t.IsConst() {
		lo, hi := intRange(bits, signed)
		vc.fact(vc.B.And(vc.B.Le(vc.B.Big(lo), t), vc.B.Le(t, vc.B.Big(hi))))
	}
}

// freshValue makes an unconstrained value of a Go type, with type-invariant facts.
func (vc *VC) freshValue(name string, t types.Type) Value {
	B := vc.B
	switch u := t.Underlying().(type) {
	case *types.Basic:
		switch {
		case isBool(t):
			return VT{B.Fresh(name, SBool)}
		case isString(t):
			v := VString{B.Fresh(name+".ptr", SInt), B.Fresh(name+".len", SInt)}
			vc.stringInv(v)
			return v
		case isFloat(t):
			return VT{B.Fresh(name+".f", SInt)}
		default:
			x := B.Fresh(name, SInt)
			vc.rangeFact(x, t)
			return VT{x}
		}
	case *types.Slice:
		v := VSlice{B.Fresh(name+".ptr", SInt), B.Fresh(name+".len", SInt), B.Fresh(name+".cap", SInt)}
		vc.sliceInv(v, sizeOf(u.Elem()))
		return v
	case *types.Interface:
		v := VIface{B.Fresh(name+".typ", SInt), B.Fresh(name+".data", SInt)}
		vc.fact(B.Le(B.Int(0), v.Typ))
		return v
	case *types.Struct:
		out := make([]Value, u.NumFields())
		for i := range out {
			out[i] = vc.freshValue(name+"."+u.Field(i).Name(), u.Field(i).Type())
		}
		return VTuple{out}
	case *types.Tuple:
		out := make([]Value, u.Len())
		for i := range out {
			out[i] = vc.freshValue(fmt.Sprintf("%s.%d", name, i), u.At(i).Type())
		}
		return VTuple{out}
	case *types.Array:
		if u.Len() <= 16 {
			out := make([]Value, u.Len())
			for i := range out {
				out[i] = vc.freshValue(fmt.Sprintf("%s.%d", name, i), u.Elem())
			}
			return VTuple{out}
		}
		return VT{B.Fresh(name+".arr", SInt)}
	default:
		x := B.Fresh(name, SInt)
		vc.fact(B.And(B.Le(B.Int(0), x), B.Lt(x, B.Big(pow2(47)))))
		return VT{x}
	}
}

var maxAddr = pow2(47)

func (vc *VC) sliceInv(v VSlice, esize int64) {
	B := vc.B
	vc.fact(B.And(B.Le(B.Int(0), v.Len), B.Le(v.Len, v.Cap), B.Lt(v.Cap, B.Big(maxAddr)), B.Le(B.Int(0), v.Ptr),
		B.Le(B.Add(v.Ptr, B.Mul(B.Int(esize), v.Cap)), B.Big(maxAddr)),
		B.Implies(B.Gt(v.Cap, B.Int(0)), B.Gt(v.Ptr, B.Int(0)))))
	if esize > 0 {
		vc.regions = append(vc.regions, Region{Base: v.Ptr, Size: B.Mul(B.Int(esize), v.Len), Own: B.Mul(B.Int(esize), v.Cap), What: "slice", Writable: true})
	}
}

func (vc *VC) stringInv(v VString) {
	B := vc.B
	vc.fact(B.And(B.Le(B.Int(0), v.Len), B.Lt(v.Len, B.Big(maxAddr)), B.Le(B.Int(0), v.Ptr),
		B.Le(B.Add(v.Ptr, v.Len), B.Big(maxAddr)), B.Implies(B.Gt(v.Len, B.Int(0)), B.Gt(v.Ptr, B.Int(0)))))
	vc.regions = append(vc.regions, Region{Base: v.Ptr, Size: v.Len, What: "string"})
}

// readM reads an integer of the given width from the byte heap, little-endian.
// constByte: addr points into a string constant (read-only data): its byte is known.
func (vc *VC) constByte(addr *Term) *Term {
	if len(vc.strConsts) == 0 {
		return nil
	}
	rest, c := splitConst(addr)
	if len(rest) != 1 {
		return nil
	}
	for s, p := range vc.strConsts {
		if p == rest[0] && c >= 0 && int(c) < len(s) {
			return vc.B.Int(int64(s[c]))
		}
	}
	return nil
}

// byteAt reads one byte of the byte heap version M (string constants are never written).
func (vc *VC) byteAt(M, addr *Term) *Term {
	if b := vc.constByte(addr); b != nil {
		return b
	}
	return vc.B.Select(M, addr)
}

func (vc *VC) readM(st *State, addr *Term, size int64, signed bool) *Term {
	B := vc.B
	M := vc.heapGet(st, "M")
	var parts []*Term
	mul := big.NewInt(1)
	for i := int64(0); i < size; i++ {
		by := vc.byteAt(M, B.Add(addr, B.Int(i)))
		if !by.IsConst() {
			vc.fact(B.And(B.Le(B.Int(0), by), B.Le(by, B.Int(255))))
		}
		parts = append(parts, B.Mul(B.Big(mul), by))
		mul = new(big.Int).Lsh(mul, 8)
	}
	u := B.Add(parts...)
	if signed {
		half := pow2(uint(size*8 - 1))
		u = B.Ite(B.Ge(u, B.Big(half)), B.Sub(u, B.Big(pow2(uint(size*8)))), u)
	}
	return u
}

func (vc *VC) writeM(st *State, addr *Term, size int64, v *Term) {
	B := vc.B
	M := vc.heapGet(st, "M")
	if size == 1 {
		// value must already be a byte (callers narrow)
		bv := v
		M = B.Store(M, addr, bv)
	} else {
		// unsigned view of v (v is in the range of its Go type by construction)
		full := pow2(uint(size * 8))
		u := B.Ite(B.Lt(v, B.Int(0)), B.Add(v, B.Big(full)), v)
		var parts []*Term
		for i := int64(0); i < size; i++ {
			by := B.Div(u, B.Big(pow2(uint(8*i))))
			if i < size-1 {
				by = B.Mod(by, B.Int(256))
			}
			M = B.Store(M, B.Add(addr, B.Int(i)), by)
			parts = append(parts, B.Mul(B.Big(pow2(uint(8*i))), by))
		}
		if !u.IsConst() {
			// arithmetic identity (holds for every u >= 0): the bytes written recompose to the value
			vc.fact(B.Implies(B.Le(B.Int(0), u), B.Eq(B.Add(parts...), u)))
		}
	}
	vc.heapSet(st, "M", M)
}

// classKey picks the heap class for an access of leaf type t through a pointer
// formed with key (Burstall key or "").
func leafClass(key string, lf Leaf) (string, bool) {
	if key != "" {
		return "F:" + key + lf.Path, false
	}
	if lf.Kind == "int" || lf.Kind == "bool" {
		if lf.Path == "" {
			return "M", true
		}
	}
	return "T:" + typeKey(lf.Typ) + lf.Path, false
}

func (vc *VC) loadLeaf(st *State, addr *Term, key string, lf Leaf) *Term {
	B := vc.B
	cls, isM := leafClass(key, lf)
	if isM {
		if lf.Kind == "bool" {
			return B.Ne(vc.readM(st, addr, 1, false), B.Int(0))
		}
		_, signed, _ := intInfo(lf.Typ)
		v := vc.readM(st, addr, lf.Size, signed)
		if isUnsafePtr(lf.Typ) && !v.IsConst() {
			// Go's type invariant for a variable of type unsafe.Pointer (as for typed pointers): nil or
			// an address in user space
			vc.fact(vc.B.And(vc.B.Le(vc.B.Int(0), v), vc.B.Lt(v, vc.B.Big(maxAddr))))
		}
		return v
	}
	if lf.Kind == "bool" {
		vc.sortOf[cls] = SArrIB
	}
	h := vc.heapGet(st, cls)
	v := B.Select(h, addr)
	switch lf.Kind {
	case "int":
		vc.rangeFact(v, lf.Typ)
	case "ptr":
		if !v.IsConst() {
			vc.fact(B.And(B.Le(B.Int(0), v), B.Lt(v, B.Big(maxAddr))))
		}
	}
	return v
}

func (vc *VC) storeLeaf(st *State, addr *Term, key string, lf Leaf, v *Term) {
	B := vc.B
	cls, isM := leafClass(key, lf)
	if isM {
		if lf.Kind == "bool" {
			vc.writeM(st, addr, 1, B.Ite(v, B.Int(1), B.Int(0)))
			return
		}
		if lf.Size == 1 {
			v = B.Ite(B.Lt(v, B.Int(0)), B.Add(v, B.Int(256)), v)
		}
		vc.writeM(st, addr, lf.Size, v)
		return
	}
	if lf.Kind == "bool" {
		vc.sortOf[cls] = SArrIB
	}
	h := vc.heapGet(st, cls)
	vc.heapSet(st, cls, B.Store(h, addr, v))
}

// assemble builds a Value of type t from leaf terms in flatten order.
func (vc *VC) assemble(t types.Type, leaves []*Term, pos *int) Value {
	switch u := t.Underlying().(type) {
	case *types.Basic:
		if isString(t) {
			v := VString{leaves[*pos], leaves[*pos+1]}
			*pos += 2
			return v
		}
		v := VT{leaves[*pos]}
		*pos++
		return v
	case *types.Slice:
		v := VSlice{leaves[*pos], leaves[*pos+1], leaves[*pos+2]}
		*pos += 3
		return v
	case *types.Interface:
		v := VIface{leaves[*pos], leaves[*pos+1]}
		*pos += 2
		return v
	case *types.Struct:
		out := make([]Value, u.NumFields())
		for i := range out {
			out[i] = vc.assemble(u.Field(i).Type(), leaves, pos)
		}
		return VTuple{out}
	case *types.Array:
		out := make([]Value, u.Len())
		for i := range out {
			out[i] = vc.assemble(u.Elem(), leaves, pos)
		}
		return VTuple{out}
	default:
		v := VT{leaves[*pos]}
		*pos++
		return v
	}
}

// disassemble lists the leaf terms of v in flatten order of t.
func (vc *VC) disassemble(t types.Type, v Value, out *[]*Term) bool {
	switch u := t.Underlying().(type) {
	case *types.Basic:
		if isString(t) {
			s, ok := v.(VString)
			if !ok {
				return false
			}
			*out = append(*out, s.Ptr, s.Len)
			return true
		}
	case *types.Slice:
		s, ok := v.(VSlice)
		if !ok {
			return false
		}
		*out = append(*out, s.Ptr, s.Len, s.Cap)
		return true
	case *types.Interface:
		s, ok := v.(VIface)
		if !ok {
			return false
		}
		*out = append(*out, s.Typ, s.Data)
		return true
	case *types.Struct:
		tu, ok := v.(VTuple)
		if !ok || len(tu.Elems) != u.NumFields() {
			return false
		}
		for i := 0; i < u.NumFields(); i++ {
			if !vc.disassemble(u.Field(i).Type(), tu.Elems[i], out) {
				return false
			}
		}
		return true
	case *types.Array:
		tu, ok := v.(VTuple)
		if !ok || int64(len(tu.Elems)) != u.Len() {
			return false
		}
		for i := range tu.Elems {
			if !vc.disassemble(u.Elem(), tu.Elems[i], out) {
				return false
			}
		}
		return true
	}
	switch x := v.(type) {
	case VT:
		*out = append(*out, x.T)
		return true
	case VPtr:
		if x.Cell == nil {
			*out = append(*out, x.Addr)
			return true
		}
	}
	return false
}

// structKeyFor: when loading/storing a whole struct through a typed pointer the
// fields use their Burstall keys.
func (vc *VC) loadTyped(st *State, addr *Term, key string, t types.Type) Value {
	if s, ok := t.Underlying().(*types.Struct); ok && key == "" {
		offs := fieldOffsets(s)
		out := make([]Value, s.NumFields())
		for i := range out {
			ft := s.Field(i).Type()
			k := fieldKey(t, i)
			if _, isS := ft.Underlying().(*types.Struct); isS {
				k = ""
			}
			if _, isA := ft.Underlying().(*types.Array); isA {
				k = ""
			}
			out[i] = vc.loadTyped(st, vc.B.Add(addr, vc.B.Int(offs[i])), k, ft)
		}
		return VTuple{out}
	}
	var leaves []Leaf
	if err := flatten(t, 0, &leaves); err != nil {
		vc.note("load of unsupported type %s havocked", typeKey(t))
		return vc.freshValue("ld", t)
	}
	terms := make([]*Term, len(leaves))
	for i, lf := range leaves {
		terms[i] = vc.loadLeaf(st, vc.B.Add(addr, vc.B.Int(lf.Off)), key, lf)
	}
	pos := 0
	v := vc.assemble(t, terms, &pos)
	switch x := v.(type) {
	case VSlice:
		if sl, ok := t.Underlying().(*types.Slice); ok {
			vc.sliceInv(x, sizeOf(sl.Elem()))
		}
	case VString:
		vc.stringInv(x)
	}
	return v
}

func (vc *VC) storeTyped(st *State, addr *Term, key string, t types.Type, v Value) {
	if s, ok := t.Underlying().(*types.Struct); ok && key == "" {
		tu, ok := v.(VTuple)
		if !ok {
			vc.havocAll(st, "store of unsupported struct value")
			return
		}
		offs := fieldOffsets(s)
		for i := 0; i < s.NumFields(); i++ {
			ft := s.Field(i).Type()
			k := fieldKey(t, i)
			if _, isS := ft.Underlying().(*types.Struct); isS {
				k = ""
			}
			if _, isA := ft.Underlying().(*types.Array); isA {
				k = ""
			}
			vc.storeTyped(st, vc.B.Add(addr, vc.B.Int(offs[i])), k, ft, tu.Elems[i])
		}
		return
	}
	var leaves []Leaf
	if err := flatten(t, 0, &leaves); err != nil {
		vc.havocAll(st, "store of unsupported type "+typeKey(t))
		return
	}
	var terms []*Term
	if !vc.disassemble(t, v, &terms) || len(terms) != len(leaves) {
		vc.havocAll(st, "store of unsupported value of type "+typeKey(t))
		return
	}
	for i, lf := range leaves {
		vc.storeLeaf(st, vc.B.Add(addr, vc.B.Int(lf.Off)), key, lf, terms[i])
	}
}

// ---------------------------------------------------------------- cells

func (vc *VC) newCell(name string, t types.Type) *Cell {
	vc.nCell++
	c := &Cell{ID: fmt.Sprintf("%s#%d", name, vc.nCell), Typ: t, Size: sizeOf(t)}
	if a, ok := t.Underlying().(*types.Array); ok {
		if _, _, isInt := intInfo(a.Elem()); isInt || isBool(a.Elem()) {
			c.Bytes = true
		}
	}
	return c
}

func (vc *VC) zeroCell(st *State, c *Cell) {
	B := vc.B
	if c.Bytes {
		st.cells[c.ID+"#"] = VT{B.ConstArr(SArrII, B.Int(0))}
		return
	}
	var leaves []Leaf
	if err := flatten(c.Typ, 0, &leaves); err != nil {
		return
	}
	for _, lf := range leaves {
		var z Value
		if lf.Kind == "bool" {
			z = VT{B.False()}
		} else {
			z = VT{B.Int(0)}
		}
		st.cells[fmt.Sprintf("%s@%d", c.ID, lf.Off)] = z
	}
}

func (vc *VC) cellLoad(st *State, p VPtr, t types.Type) Value {
	B := vc.B
	c := p.Cell
	if cellGlobal[c] != nil {
		if v, ok := vc.globalLoad(st, p, t, p.Idx); ok {
			return v
		}
	}
	if c.Bytes {
		arr, ok := st.cells[c.ID+"#"].(VT)
		if !ok {
			return vc.freshValue("cell", t)
		}
		off := B.Int(p.Off)
		if p.Dyn != nil {
			off = B.Add(off, p.Dyn)
		}
		if at, ok := t.Underlying().(*types.Array); ok {
			_ = at
			vc.note("whole-array load from byte cell havocked")
			return vc.freshValue("cellarr", t)
		}
		sz := sizeOf(t)
		_, signed, _ := intInfo(t)
		var parts []*Term
		mul := big.NewInt(1)
		for i := int64(0); i < sz; i++ {
			by := B.Select(arr.T, B.Add(off, B.Int(i)))
			if !by.IsConst() {
				vc.fact(B.And(B.Le(B.Int(0), by), B.Le(by, B.Int(255))))
			}
			parts = append(parts, B.Mul(B.Big(mul), by))
			mul = new(big.Int).Lsh(mul, 8)
		}
		u := B.Add(parts...)
		if isBool(t) {
			return VT{B.Ne(u, B.Int(0))}
		}
		if signed {
			u = B.Ite(B.Ge(u, B.Big(pow2(uint(sz*8-1)))), B.Sub(u, B.Big(pow2(uint(sz*8)))), u)
		}
		return VT{u}
	}
	if p.Dyn != nil {
		vc.note("dynamic offset into slot cell havocked")
		return vc.freshValue("cell", t)
	}
	var leaves []Leaf
	if err := flatten(t, 0, &leaves); err != nil {
		return vc.freshValue("cell", t)
	}
	vals := make([]Value, len(leaves))
	allT := true
	for i, lf := range leaves {
		v, ok := st.cells[fmt.Sprintf("%s@%d", c.ID, p.Off+lf.Off)]
		if !ok {
			vc.note("cell %s read at unknown offset %d havocked", c.ID, p.Off+lf.Off)
			return vc.freshValue("cell", t)
		}
		vals[i] = v
		if _, isT := v.(VT); !isT {
			allT = false
		}
	}
	if len(leaves) == 1 {
		v := vals[0]
		// a pointer slot viewed as an integer or vice versa is the same word
		return v
	}
	if !allT {
		// composite containing provenance pointers: only tuples of scalars supported
		if s, ok := t.Underlying().(*types.Struct); ok && s.NumFields() == len(vals) {
			return VTuple{vals}
		}
		vc.note("composite cell read with pointer provenance havocked")
		return vc.freshValue("cell", t)
	}
	terms := make([]*Term, len(vals))
	for i, v := range vals {
		terms[i] = v.(VT).T
	}
	pos := 0
	return vc.assemble(t, terms, &pos)
}

func (vc *VC) cellStore(st *State, p VPtr, t types.Type, v Value) {
	B := vc.B
	c := p.Cell
	if cellGlobal[c] != nil {
		if p.Idx != nil {
			vc.note("store into global array %s: unsupported, all heap havocked", c.ID)
			vc.havocAll(st, "store into global array")
			return
		}
		vc.globalStore(st, p, t, v)
		return
	}
	if c.Bytes {
		arr, ok := st.cells[c.ID+"#"].(VT)
		if !ok {
			return
		}
		off := B.Int(p.Off)
		if p.Dyn != nil {
			off = B.Add(off, p.Dyn)
		}
		x, ok := v.(VT)
		if !ok {
			vc.note("non-scalar store into byte cell: cell havocked")
			st.cells[c.ID+"#"] = VT{B.Fresh("cellhv", SArrII)}
			return
		}
		sz := sizeOf(t)
		u := x.T
		if u.sort == SBool {
			u = B.Ite(u, B.Int(1), B.Int(0))
		}
		a := arr.T
		if u.sort == SInt {
			u = B.Ite(B.Lt(u, B.Int(0)), B.Add(u, B.Big(pow2(uint(sz*8)))), u)
		}
		if sz == 1 {
			a = B.Store(a, off, u)
		} else {
			for i := int64(0); i < sz; i++ {
				by := B.Div(u, B.Big(pow2(uint(8*i))))
				if i < sz-1 {
					by = B.Mod(by, B.Int(256))
				}
				a = B.Store(a, B.Add(off, B.Int(i)), by)
			}
		}
		st.cells[c.ID+"#"] = VT{a}
		return
	}
	if p.Dyn != nil {
		vc.note("dynamic store into slot cell: cell havocked")
		for k := range st.cells {
			if len(k) > len(c.ID) && k[:len(c.ID)+1] == c.ID+"@" {
				st.cells[k] = VT{B.Fresh("cellhv", SInt)}
			}
		}
		return
	}
	var leaves []Leaf
	if err := flatten(t, 0, &leaves); err != nil {
		return
	}
	if len(leaves) == 1 {
		st.cells[fmt.Sprintf("%s@%d", c.ID, p.Off)] = v
		return
	}
	if tu, ok := v.(VTuple); ok {
		if s, ok := t.Underlying().(*types.Struct); ok {
			offs := fieldOffsets(s)
			for i := 0; i < s.NumFields(); i++ {
				vc.cellStore(st, VPtr{Cell: c, Off: p.Off + offs[i]}, s.Field(i).Type(), tu.Elems[i])
			}
			return
		}
		if a, ok := t.Underlying().(*types.Array); ok {
			es := sizeOf(a.Elem())
			for i := range tu.Elems {
				vc.cellStore(st, VPtr{Cell: c, Off: p.Off + int64(i)*es}, a.Elem(), tu.Elems[i])
			}
			return
		}
	}
	var terms []*Term
	if !vc.disassemble(t, v, &terms) || len(terms) != len(leaves) {
		vc.note("unsupported composite store into cell")
		return
	}
	for i, lf := range leaves {
		st.cells[fmt.Sprintf("%s@%d", c.ID, p.Off+lf.Off)] = VT{terms[i]}
	}
}

type prodRec struct{ a, b, p *Term }

// noteProduct records a product of two symbolic factors and states the monotonicity
// facts that relate it to earlier products sharing a factor (the solvers' nonlinear
// engines time out on them; these instances are linear in the product terms).
func (vc *VC) noteProduct(a, b, p *Term) {
	if a.IsConst() || b.IsConst() || p.op != "*" {
		return
	}
	B := vc.B
	for _, r := range vc.products {
		if r.p == p {
			return
		}
	}
	if len(vc.products) < 40 {
		for _, r := range vc.products {
			for _, pair := range [][4]*Term{{a, b, r.a, r.b}, {a, b, r.b, r.a}, {b, a, r.a, r.b}, {b, a, r.b, r.a}} {
				x, s1, y, s2 := pair[0], pair[1], pair[2], pair[3]
				if s1 != s2 {
					continue
				}
				// p = x*s, r.p = y*s
				nonneg := B.Le(B.Int(0), s1)
				vc.fact(B.Implies(B.And(nonneg, B.Le(x, y)), B.Le(p, r.p)))
				vc.fact(B.Implies(B.And(nonneg, B.Le(y, x)), B.Le(r.p, p)))
				vc.fact(B.Implies(B.And(nonneg, B.Lt(x, y)), B.Le(B.Add(p, s1), r.p)))
				vc.fact(B.Implies(B.And(nonneg, B.Lt(y, x)), B.Le(B.Add(r.p, s1), p)))
			}
		}
	}
	// sign facts
	vc.fact(B.Implies(B.And(B.Le(B.Int(0), a), B.Le(B.Int(0), b)), B.Le(B.Int(0), p)))
	vc.fact(B.Implies(B.And(B.Le(B.Int(1), a), B.Le(B.Int(0), b)), B.Le(b, p)))
	vc.fact(B.Implies(B.And(B.Le(B.Int(0), a), B.Le(B.Int(1), b)), B.Le(a, p)))
	vc.products = append(vc.products, prodRec{a, b, p})
}
