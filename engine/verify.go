package main

import (
	"fmt"
	"math/big"
	"go/types"
	"os"
	"sort"
	"strings"
	"sync"
	"time"

	"golang.org/x/tools/go/ssa"
)

// trivialObls counts, per function, the obligations whose goal folded to true while it was built
// (a store exactly at a declared region, say): generated and discharged by construction.
var trivialObls = map[string]int{}

type Engine struct {
	alt     map[string]*Program // programs loaded under additional build tags
	P       *Program
	CS      *ContractSet
	timeout int
	all     bool // run every solver on every obligation (thorough)
	errs    []string
}

func newEngine(tier string) (*Engine, error) {
	P, err := loadProgram("verif")
	if err != nil {
		return nil, err
	}
	cs, err := loadContracts()
	if err != nil {
		return nil, err
	}
	theGlobals = buildGlobalIndex(P)
	e := &Engine{P: P, CS: cs, timeout: 20}
	if tier == "thorough" {
		e.timeout = 120
		e.all = true
	}
	// fail closed: every contract must resolve to a function (interface contracts excepted)
	for _, k := range cs.Order {
		c := cs.Funcs[k]
		if i := strings.Index(k, ".fieldfunc:"); i >= 0 {
			// contract of the functions stored in a struct field: the field must exist and hold a function
			if !fieldFuncExists(P, k[:i], k[i+len(".fieldfunc:"):]) {
				e.errs = append(e.errs, fmt.Sprintf("%s: contract target %s: no such function-typed field in the current tree", c.Pos, k))
			}
			continue
		}
		if P.Funcs[k] == nil && !strings.HasPrefix(c.Trusted, "interface") && !c.IsFuncType {
			e.errs = append(e.errs, fmt.Sprintf("%s: contract target %s does not exist in the current tree", c.Pos, k))
		}
	}
	return e, nil
}

func (e *Engine) newVC(fn *ssa.Function, c *Contract, prop string) *VC {
	vc := &VC{P: e.P, CS: e.CS, B: NewBuilder(), fn: fn, c: c, prop: prop, notes: map[string]bool{},
		epochs: map[int]epochMerge{}, sortOf: map[string]Sort{}, typeIDs: map[string]int{}, strConsts: map[string]*Term{},
		counters: map[string]int{}, factSeen: map[*Term]bool{}, ghostParent: map[int]int{}, factIndex: map[*Term]int{}, varMemo: map[*Term]*big.Int{}, varIDs: map[*Term]int{}, swarDone: map[string]bool{}, cleanVars: map[*Term]bool{}}
	return vc
}

type splitCase struct {
	tag  string
	bind map[string]int64 // "len(b)" -> value, "x" -> value
	rest bool             // remainder case: every split expression lies outside its range
}

func expandSplits(c *Contract) []splitCase {
	cases := []splitCase{{bind: map[string]int64{}}}
	for _, s := range c.Splits {
		var next []splitCase
		for _, base := range cases {
			for v := s.Lo; v <= s.Hi; v++ {
				nb := map[string]int64{}
				for k, x := range base.bind {
					nb[k] = x
				}
				nb[s.E.String()] = v
				tag := fmt.Sprintf("%s=%d", s.E.String(), v)
				if base.tag != "" {
					tag = base.tag + "," + tag
				}
				next = append(next, splitCase{tag: tag, bind: nb})
			}
		}
		cases = next
	}
	return cases
}

// altProgram loads /repo once more with extra build tags (e.g. the race variants of the caches).
func (e *Engine) altProgram(tag string) (*Program, error) {
	if e.alt == nil {
		e.alt = map[string]*Program{}
	}
	if p, ok := e.alt[tag]; ok {
		return p, nil
	}
	p, err := loadProgram("verif," + tag)
	if err != nil {
		return nil, err
	}
	gi := buildGlobalIndex(p)
	for g, info := range gi.info {
		theGlobals.info[g] = info
	}
	e.alt[tag] = p
	return p, nil
}

// verifyFunction generates all obligations of one function under contract (and of its
// variants under additional build tags).
func (e *Engine) verifyFunction(fn *ssa.Function, c *Contract, prop string) ([]*Obligation, []string, error) {
	obls, notes, err := e.verifyFunctionIn(e.P, fn, c, prop, "")
	if err != nil {
		return nil, nil, err
	}
	for _, tag := range c.AlsoTags {
		p, err := e.altProgram(tag)
		if err != nil {
			return nil, nil, fmt.Errorf("loading with tag %s: %v", tag, err)
		}
		fn2 := p.Funcs[c.Key]
		if fn2 == nil {
			return nil, nil, fmt.Errorf("%s does not exist under build tag %s", c.Key, tag)
		}
		o2, n2, err := e.verifyFunctionIn(p, fn2, c, prop, tag)
		if err != nil {
			return nil, nil, err
		}
		obls = append(obls, o2...)
		notes = append(notes, n2...)
	}
	return obls, notes, nil
}

func (e *Engine) verifyFunctionIn(P *Program, fn *ssa.Function, c *Contract, prop, tag string) ([]*Obligation, []string, error) {
	var obls []*Obligation
	notes := map[string]bool{}
	if c.Implements != "" {
		// the function is a value of a named function type: it must satisfy that type's contract too
		ftc := e.CS.Funcs["functype:"+c.Pkg+"."+c.Implements]
		if ftc == nil {
			return nil, nil, fmt.Errorf("%s implements unknown functype %s", c.Key, c.Implements)
		}
		m := *c
		m.Requires = append(append([]*Clause{}, ftc.Requires...), c.Requires...)
		m.Ensures = append(append([]*Clause{}, ftc.Ensures...), c.Ensures...)
		m.Assigns, m.HasAssigns = ftc.Assigns, ftc.HasAssigns
		m.Reads, m.HasReads = ftc.Reads, ftc.HasReads
		if len(m.Params) == 0 {
			m.Params = ftc.Params
		}
		c = &m
	}
	cases := expandSplits(c)
	for _, sc := range cases {
		vc := e.newVC(fn, c, prop)
		vc.P = P
		vc.caseTag = sc.tag
		if tag != "" {
			vc.caseTag = strings.TrimPrefix(sc.tag+",tags="+tag, ",")
		}
		if err := vc.runTop(sc); err != nil {
			return nil, nil, err
		}
		obls = append(obls, vc.obls...)
		trivialObls[c.Key] += vc.counters["trivial"]
		for n := range vc.notes {
			notes[n] = true
		}
	}
	for i := range c.Splits {
		// remainder case: split expression i outside its range (makes the case split exhaustive)
		vc := e.newVC(fn, c, prop)
		vc.P = P
		vc.caseTag = fmt.Sprintf("%s=rest", c.Splits[i].E.String())
		vc.restOf = c.Splits[i]
		if err := vc.runTop(splitCase{bind: map[string]int64{}, rest: true}); err != nil {
			return nil, nil, err
		}
		obls = append(obls, vc.obls...)
		for n := range vc.notes {
			notes[n] = true
		}
	}
	var ns []string
	for n := range notes {
		ns = append(ns, n)
	}
	sort.Strings(ns)
	return obls, ns, nil
}

func (vc *VC) bindParams(f *Frame, st *State, sc splitCase) []Value {
	B := vc.B
	fn := f.fn
	args := make([]Value, len(fn.Params))
	pnames := make([]string, len(fn.Params))
	for i, p := range fn.Params {
		pnames[i] = p.Name()
		if vc.c != nil && i < len(vc.c.Params) {
			pnames[i] = vc.c.Params[i]
		}
	}
	for i, p := range fn.Params {
		name := pnames[i]
		v := vc.freshValue(name, p.Type())
		// splits on len(x) or x itself
		if n, ok := sc.bind["len("+name+")"]; ok {
			switch s := v.(type) {
			case VSlice:
				s.Len = B.Int(n)
				vc.fact(B.Le(s.Len, s.Cap))
				v = s
				vc.regions = append(vc.regions, Region{Base: s.Ptr, Size: B.Int(n * 1), What: "slice", Writable: true})
			case VString:
				s.Len = B.Int(n)
				v = s
				vc.regions = append(vc.regions, Region{Base: s.Ptr, Size: B.Int(n), What: "string"})
			}
		}
		if n, ok := sc.bind[name]; ok {
			if _, isT := v.(VT); isT {
				v = VT{B.Int(n)}
			}
		}
		args[i] = v
		f.names[name] = CV{v, p.Type()}
		var terms []*Term
		if vc.disassemble(p.Type(), v, &terms) {
			vc.modelVars = append(vc.modelVars, terms...)
		}
		// initial bytes of byte slices / strings, for counterexamples
		var ptr, ln *Term
		switch s := v.(type) {
		case VSlice:
			if sl, ok := p.Type().Underlying().(*types.Slice); ok && sizeOf(sl.Elem()) == 1 {
				ptr, ln = s.Ptr, s.Len
			}
		case VString:
			ptr, ln = s.Ptr, s.Len
		}
		if ptr != nil {
			if !ln.IsConst() {
				vc.smallHints = append(vc.smallHints, B.Le(ln, B.Int(40)))
			}
			n := int64(40)
			if ln.IsConst() && ln.ival.IsInt64() && ln.ival.Int64() < 48 {
				n = ln.ival.Int64()
			}
			M0 := vc.heapGet(st, "M")
			for j := int64(0); j < n; j++ {
				vc.modelTerms = append(vc.modelTerms, modelTerm{fmt.Sprintf("%s[%d]", name, j), B.Select(M0, B.Add(ptr, B.Int(j)))})
			}
		}
	}
	return args
}

func (vc *VC) applyBinds(f *Frame, st *State) {
	// "requires <global> == <const>" binds a package-level variable for this proof
	if vc.c == nil {
		return
	}
	var conj []*Expr
	var flat func(x *Expr)
	flat = func(x *Expr) {
		if x.Op == "bin" && x.Name == "&&" {
			flat(x.Args[0])
			flat(x.Args[1])
			return
		}
		conj = append(conj, x)
	}
	for _, cl := range vc.c.Requires {
		flat(cl.E)
	}
	for _, e := range conj {
		if e.Op == "bin" && e.Name == "==" && e.Args[0].Op == "name" && e.Args[1].Op == "int" {
			if f.fn.Pkg == nil {
				continue
			}
			if g, ok := f.fn.Pkg.Members[e.Args[0].Name].(*ssa.Global); ok {
				p := vc.globalPtr(g).(VPtr)
				st.cells[p.Cell.ID+"@bind"] = VT{vc.B.IntStr(e.Args[1].Int)}
				vc.note("assumed: package variable %s == %s (contract precondition on a global)", e.Args[0].Name, e.Args[1].Int)
			}
		}
	}
}

func (vc *VC) runTop(sc splitCase) error {
	B := vc.B
	f := vc.newFrame(vc.fn, vc.c, true)
	st := &State{pc: B.True(), heap: map[string]*Term{}, cells: map[string]Value{}, lenv: map[ssa.Value]Value{}}
	args := vc.bindParams(f, st, sc)
	vc.applyBinds(f, st)
	for _, g := range vc.c.GhostParams {
		f.names[g] = CV{VT{B.Fresh("ghost_"+g, SInt)}, nil}
	}
	entry := st.clone()
	ctx := f.newCtx(st, entry)
	for _, l := range vc.c.Lets {
		cv := ctx.evalLet(l)
		if cv.V != nil {
			f.names[l.Name] = cv
			ctx.names[l.Name] = cv
		}
	}
	for _, a := range vc.CS.Axioms {
		g, err := ctx.evalBoolSafe(a.E)
		if err != nil {
			return fmt.Errorf("%s: axiom: %v", a.Pos, err)
		}
		vc.fact(g)
		vc.note("axiom: %s", a.Text)
	}
	for _, l := range vc.c.Lemmas {
		if len(l.Props) > 0 && vc.prop != "" && !clauseHasProp(l, vc.c, vc.prop) {
			continue
		}
		g, err := ctx.evalBoolSafe(l.E)
		name := strings.TrimPrefix(l.Kind, "lemma:")
		if err != nil {
			f.oblige(st, "lemma", name, fmt.Sprintf("lemma %s cannot be evaluated: %v", name, err), vc.fn.Pos(), B.False(), l)
			continue
		}
		// proved before any precondition is assumed: valid for all parameter values
		f.oblige(st, "lemma", name, "lemma "+name+": "+l.Text, vc.fn.Pos(), g, l)
	}
	for _, a := range vc.c.Defs {
		g, err := ctx.evalBoolSafe(a.E)
		if err != nil {
			return fmt.Errorf("%s: define: %v", a.Pos, err)
		}
		vc.fact(g)
		vc.note("definitional axiom (recursive definition of a spec function over the entry memory; consistent because it is a primitive recursion): %s", a.Text)
	}
	ctx.declareRegions = true
	ctx.assumeMode = true // poolfree(...) in a precondition is an assumption about the caller's state
	for _, cl := range vc.c.Requires {
		g, err := ctx.evalBoolSafe(cl.E)
		if err != nil {
			return fmt.Errorf("%s: requires: %v", cl.Pos, err)
		}
		st.pc = B.And(st.pc, g)
	}
	ctx.declareRegions = false
	ctx.assumeMode = false
	if vc.restOf != nil {
		t, err := ctx.evalIntSafe(vc.restOf.E)
		if err != nil {
			return fmt.Errorf("split: %v", err)
		}
		st.pc = B.And(st.pc, B.Or(B.Lt(t, B.Int(vc.restOf.Lo)), B.Gt(t, B.Int(vc.restOf.Hi))))
	}
	// vacuity cover: the preconditions are satisfiable
	cov := &Obligation{Name: f.oblName("cover", "requires"), Kind: "cover", Func: funcKey(vc.fn), Text: "preconditions are satisfiable",
		Hyps: []*Term{st.pc}, Goal: B.False(), vc: vc, Cover: true, Pos: vc.c.Pos}
	cov.NFacts = len(vc.facts)
	vc.obls = append(vc.obls, cov)
	rst, vals, err := f.run(st, args)
	if err != nil {
		return err
	}
	if rst == nil {
		// vacuity guard: no return was reached although the function has one. Either an assumption
		// (postassume, callassume, trusted postcondition) is contradictory or every path was cut.
		hasRet := false
		for _, b := range vc.fn.Blocks {
			if len(b.Instrs) > 0 {
				if _, ok := b.Instrs[len(b.Instrs)-1].(*ssa.Return); ok {
					hasRet = true
				}
			}
		}
		if hasRet && len(f.returns) == 0 {
			vc.obls = append(vc.obls, &Obligation{Name: f.oblName("cover", "some-return"), Kind: "cover-return", Func: funcKey(vc.fn),
				Text: "some return of the function is reachable (the assumptions made on the way are consistent)",
				Hyps: []*Term{vc.B.False()}, Goal: vc.B.False(), vc: vc, Cover: true, Pos: vc.c.Pos, NFacts: len(vc.facts)})
		}
		return nil
	}
	_ = vals
	res := vc.fn.Signature.Results()
	// each postcondition is proved at every return separately (simpler queries, and the
	// failing return is named); later clauses may use earlier ones
	for ri, r := range f.returns {
		rstate := r.st
		ectx := f.newCtx(rstate, entry)
		for i := 0; i < res.Len(); i++ {
			if i < len(vc.c.Results) {
				ectx.names[vc.c.Results[i]] = CV{r.vals[i], res.At(i).Type()}
			}
		}
		if res.Len() == 1 {
			ectx.names["result"] = CV{r.vals[0], res.At(0).Type()}
		}
		for i, g := range vc.c.Ghosts {
			if i < len(r.ghosts) && r.ghosts[i] != nil {
				ectx.names[g.Name] = CV{r.ghosts[i], nil}
			}
		}
		for _, l := range vc.c.Lets {
			if _, ok := ectx.names[l.Name]; !ok {
				if cv := ectx.evalLet(l); cv.V != nil {
					ectx.names[l.Name] = cv
				}
			}
		}
		// vacuity guard: this return is reachable under the facts and preconditions
		rc := &Obligation{Name: f.oblName("cover", fmt.Sprintf("return%d", ri+1)), Kind: "cover-return", Func: funcKey(vc.fn),
			Text: fmt.Sprintf("return at line %d is reachable (facts and path condition are consistent)", r.line),
			Hyps: []*Term{rstate.pc}, Goal: B.False(), vc: vc, Cover: true, Pos: vc.c.Pos, NFacts: len(vc.facts)}
		rc.FIdx = append([]int{}, rstate.fidx...)
		vc.obls = append(vc.obls, rc)
		for i, cl := range vc.c.Ensures {
			if isUnverified(cl) {
				vc.note("UNVERIFIED clause of %s (stated, not proved, not assumed at call sites): %s", vc.c.Key, cl.Text)
				continue
			}
			if len(cl.Props) > 0 && vc.prop != "" && !clauseHasProp(cl, vc.c, vc.prop) {
				continue
			}
			ectx.st = rstate
			g, err := ectx.evalBoolSafe(cl.E)
			if err != nil {
				return fmt.Errorf("%s: ensures: %v", cl.Pos, err)
			}
			where := fmt.Sprintf(" [return at line %d", r.line)
			if r.tag > 0 {
				where += fmt.Sprintf(", loop exit %d", r.tag-1)
			}
			f.oblige(rstate, "ensures", fmt.Sprintf("%d.ret%d", i+1, ri+1), "postcondition: "+cl.Text+where+"]", vc.fn.Pos(), g, cl)
			rstate = rstate.clone()
			rstate.pc = B.And(rstate.pc, g)
		}
	}
	return nil
}

func (vc *VC) splitExhaustive() error {
	B := vc.B
	f := vc.newFrame(vc.fn, vc.c, true)
	st := &State{pc: B.True(), heap: map[string]*Term{}, cells: map[string]Value{}, lenv: map[ssa.Value]Value{}}
	vc.bindParams(f, st, splitCase{bind: map[string]int64{}})
	ctx := f.newCtx(st, st)
	for _, cl := range vc.c.Requires {
		g, err := ctx.evalBoolSafe(cl.E)
		if err != nil {
			return err
		}
		st.pc = B.And(st.pc, g)
	}
	for _, s := range vc.c.Splits {
		t, err := ctx.evalIntSafe(s.E)
		if err != nil {
			return err
		}
		f.oblige(st, "split", "", "split cases are exhaustive: "+s.Text, vc.fn.Pos(), B.And(B.Le(B.Int(s.Lo), t), B.Le(t, B.Int(s.Hi))), nil)
	}
	return nil
}

// ---------------------------------------------------------------- discharge

// varSet computes (memoised per VC) the set of declared variables of a term as a bitset.
func (vc *VC) varSet(t *Term) *big.Int {
	if r, ok := vc.varMemo[t]; ok {
		return r
	}
	r := new(big.Int)
	if t.op == "var" {
		id, ok := vc.varIDs[t]
		if !ok {
			id = len(vc.varIDs)
			vc.varIDs[t] = id
		}
		r.SetBit(r, id, 1)
	}
	for _, a := range t.args {
		r.Or(r, vc.varSet(a))
	}
	vc.varMemo[t] = r
	return r
}

var bigZero = new(big.Int)

func intersects(a, b *big.Int) bool {
	return new(big.Int).And(a, b).Sign() != 0
}

func (o *Obligation) script() (string, []string) { return o.scriptWith(nil) }

// scriptQF: the same query with every quantified hypothesis dropped (a weaker, sound set of
// hypotheses); most run-time-check obligations discharge from it quickly.
func (o *Obligation) scriptQF() (string, bool) {
	o.qfOnly = true
	defer func() { o.qfOnly = false }()
	if o.Goal.quant {
		return "", false
	}
	s, _ := o.scriptWith(nil)
	return s, o.droppedQuant
}

func (o *Obligation) scriptWith(extra []*Term) (string, []string) {
	vc := o.vc
	B := vc.B
	rel := new(big.Int)
	for _, h := range o.Hyps {
		rel.Or(rel, vc.varSet(h))
	}
	rel.Or(rel, vc.varSet(o.Goal))
	var facts []*Term
	if o.FIdx != nil && os.Getenv("GOVC_ALLFACTS") == "" {
		seen := map[int]bool{}
		for _, i := range vc.baseFacts {
			if !seen[i] {
				seen[i] = true
				facts = append(facts, vc.facts[i])
			}
		}
		for _, i := range o.FIdx {
			if !seen[i] {
				seen[i] = true
				facts = append(facts, vc.facts[i])
			}
		}
	} else {
		facts = vc.facts[:o.NFacts]
	}
	used := make([]bool, len(facts))
	changed := true
	for changed {
		changed = false
		for i, fct := range facts {
			if used[i] {
				continue
			}
			vs := vc.varSet(fct)
			if vs.Sign() == 0 || intersects(vs, rel) {
				used[i] = true
				changed = true
				rel.Or(rel, vs)
			}
		}
	}
	var asserts []*Term
	o.droppedQuant = false
	for i, fct := range facts {
		if used[i] {
			if o.qfOnly && fct.quant {
				o.droppedQuant = true
				continue
			}
			asserts = append(asserts, fct)
		}
	}
	if o.qfOnly {
		for _, h := range o.Hyps {
			var conj []*Term
			if h.op == "and" {
				conj = h.args
			} else {
				conj = []*Term{h}
			}
			for _, c := range conj {
				if c.quant {
					o.droppedQuant = true
					continue
				}
				asserts = append(asserts, c)
			}
		}
	} else {
		asserts = append(asserts, o.Hyps...)
	}
	if o.wantInst {
		o.instAsserts = asserts
		return "", nil
	}
	asserts = append(asserts, B.Not(o.Goal))
	asserts = append(asserts, extra...)
	var gv []*Term
	var names []string
	for _, v := range vc.modelVars {
		if !v.IsConst() && v.op == "var" {
			gv = append(gv, v)
			names = append(names, strings.TrimSuffix(v.name, "!0"))
		}
	}
	for _, mt := range vc.modelTerms {
		if !mt.t.IsConst() {
			gv = append(gv, mt.t)
			names = append(names, mt.name)
		}
	}
	return B.Query(asserts, gv), names
}

var builderMu sync.Mutex

func (e *Engine) discharge(obls []*Obligation) {
	var wg sync.WaitGroup
	sem := make(chan struct{}, 12)
	t0 := time.Now()
	var genTime time.Duration
	var genMu sync.Mutex
	gen := func(o *Obligation, f func()) {
		mu := &builderMu
		if o.vc != nil {
			mu = &o.vc.B.mu
		}
		mu.Lock()
		t := time.Now()
		f()
		d := time.Since(t)
		mu.Unlock()
		genMu.Lock()
		genTime += d
		genMu.Unlock()
	}
	var work func(o *Obligation, scale int)
	work = func(o *Obligation, scale int) {
		{
			to := e.timeout * scale
			if o.Cover && to > 3 {
				to = 3
			}
			var script, qf, inst string
			lastInstLen := -1
			var names []string
			if o.RawScript != "" {
				o.Res = solve(o.Name, o.RawScript, e.timeout, e.all)
				return
			}
			if !o.Cover {
				// stage 1: quantifier-free weakening of the hypotheses
				gen(o, func() {
					if q, dropped := o.scriptQF(); dropped {
						qf = q
					}
				})
				if qf != "" {
					r := solve(o.Name+"_qf", qf, 4*scale, false)
					if r.Verdict == "unsat" {
						r.Solver += " (quantifier-free hypotheses)"
						o.Res = r
						return
					}
				}
				// stage 2: engine-side instantiation of quantified hypotheses (goal-directed first; the wide
				// variant is generated only when that does not suffice)
				for _, wide := range []bool{false, true} {
					inst = ""
					gen(o, func() {
						o.wantInst = true
						o.scriptWith(nil)
						o.wantInst = false
						if as, ok := instantiateQuery(o.vc.B, o.instAsserts, o.vc.B.Not(o.Goal), wide); ok {
							if !wide || len(as) != lastInstLen {
								inst = o.vc.B.Query(as, nil)
							}
							lastInstLen = len(as)
						}
						o.instAsserts = nil
					})
					if inst == "" {
						continue
					}
					r := solve(o.Name+"_inst", inst, 10*scale, false)
					if r.Verdict == "unsat" {
						r.Solver += " (instantiated hypotheses)"
						o.Res = r
						return
					}
				}
			}
			gen(o, func() { script, names = o.script() })
			o.Res = solve(o.Name, script, to, e.all && !o.Cover)
			if o.Res.Verdict == "sat" && len(o.Res.ModelList) == len(names) {
				o.Res.Model = map[string]string{}
				for j, n := range names {
					o.Res.Model[n] = o.Res.ModelList[j]
				}
			}
		}
	}
	for _, o := range obls {
		if o.Res.Verdict != "" {
			continue // decided by evaluation
		}
		wg.Add(1)
		go func(o *Obligation) {
			defer wg.Done()
			sem <- struct{}{}
			defer func() { <-sem }()
			work(o, 1)
		}(o)
	}
	wg.Wait()
	// second pass: an obligation that ran out of time while 12 queries shared the machine is tried
	// again with three times the budget and little competition, so that load never decides a verdict
	var again []*Obligation
	for _, o := range obls {
		if !o.Cover && o.RawScript == "" && o.vc != nil && (o.Res.Verdict == "timeout" || o.Res.Verdict == "unknown") {
			again = append(again, o)
		}
	}
	if len(again) > 0 && len(again) <= 60 {
		sem2 := make(chan struct{}, 3)
		var wg2 sync.WaitGroup
		for _, o := range again {
			wg2.Add(1)
			go func(o *Obligation) {
				defer wg2.Done()
				sem2 <- struct{}{}
				defer func() { <-sem2 }()
				work(o, 3)
			}(o)
		}
		wg2.Wait()
	}
	// Path-sensitive execution (nomerge, unroll) makes several copies of one return statement; a copy
	// beyond what the data allows (the fifth round of a loop over at most four elements) is rightly
	// unreachable. The vacuity guard is per statement: it fails only if every copy is unreachable.
	type retKey struct{ fn, text string }
	groups := map[retKey][]*Obligation{}
	for _, o := range obls {
		if o.Cover && o.Kind == "cover-return" {
			k := retKey{o.Func, o.Text}
			groups[k] = append(groups[k], o)
		}
	}
	for _, g := range groups {
		live := false
		for _, o := range g {
			if o.Res.Verdict != "unsat" {
				live = true
			}
		}
		if live && len(g) > 1 {
			for _, o := range g {
				if o.Res.Verdict == "unsat" {
					o.Res.Verdict = "unreachable-copy"
				}
			}
		}
	}
	if os.Getenv("GOVC_TIMING") != "" {
		fmt.Fprintf(os.Stderr, "timing: %d obligations, query generation %.2fs, wall %.2fs\n", len(obls), genTime.Seconds(), time.Since(t0).Seconds())
	}
	// minimise counterexamples: ask again with small sizes so that replays are executable
	for _, o := range obls {
		if o.vc == nil || o.Cover || o.Res.Verdict != "sat" || len(o.vc.smallHints) == 0 {
			continue
		}
		sc, names := o.scriptWith(o.vc.smallHints)
		r := solve(o.Name+"_min", sc, 10, false)
		if r.Verdict == "sat" && len(r.ModelList) == len(names) {
			r.Model = map[string]string{}
			for j, n := range names {
				r.Model[n] = r.ModelList[j]
			}
			o.Res.Model = r.Model
			o.Res.ModelList = r.ModelList
			o.Res.Output = r.Output
		}
	}
}

func (o *Obligation) ok() bool {
	if o.Cover {
		return o.Res.Verdict != "unsat"
	}
	return o.Res.Verdict == "unsat"
}

// ---------------------------------------------------------------- debug command

func cmdVerify(args []string) int {
	e, err := newEngine("quick")
	if err != nil {
		fmt.Fprintln(os.Stderr, err)
		return 2
	}
	for _, m := range e.errs {
		fmt.Println("ERROR:", m)
	}
	rc := 0
	for _, key := range args {
		c := e.CS.Funcs[key]
		fn := e.P.Funcs[key]
		if c == nil || fn == nil {
			fmt.Printf("no contract or function for %s\n", key)
			rc = 2
			continue
		}
		t0 := time.Now()
		obls, notes, err := e.verifyFunction(fn, c, "")
		if err != nil {
			fmt.Printf("%s: generation failed: %v\n", key, err)
			rc = 1
			continue
		}
		e.discharge(obls)
		fail := 0
		for _, o := range obls {
			status := "ok"
			if !o.ok() {
				status = "FAIL"
				fail++
			}
			fmt.Printf("  %-4s %-7s %-8s %5.2fs %s   -- %s\n", status, o.Res.Verdict, o.Res.Solver, o.Res.Secs, o.Name, o.Text)
			if !o.ok() {
				if len(o.Res.Model) > 0 {
					var ks []string
					for k := range o.Res.Model {
						ks = append(ks, k)
					}
					sort.Strings(ks)
					for _, k := range ks {
						fmt.Printf("         %s = %s\n", k, o.Res.Model[k])
					}
				} else if o.Res.Output != "" {
					fmt.Printf("         %s\n", firstLines(o.Res.Output, 4))
				}
			}
		}
		for _, n := range notes {
			fmt.Println("  note:", n)
		}
		fmt.Printf("%s: %d obligations, %d failed, %.1fs\n", key, len(obls), fail, time.Since(t0).Seconds())
		if fail > 0 {
			rc = 1
		}
	}
	return rc
}

func cmdLoops(args []string) int {
	P, err := loadProgram("verif")
	if err != nil {
		fmt.Fprintln(os.Stderr, err)
		return 2
	}
	for _, key := range args {
		fn := P.Funcs[key]
		if fn == nil {
			fmt.Printf("no function %s\n", key)
			continue
		}
		vc := &VC{P: P, B: NewBuilder(), notes: map[string]bool{}}
		f := vc.newFrame(fn, nil, true)
		f.analyzeLoops()
		var heads []*ssa.BasicBlock
		for h := range f.loops {
			heads = append(heads, h)
		}
		sort.Slice(heads, func(i, j int) bool { return heads[i].Index < heads[j].Index })
		for _, h := range heads {
			li := f.loops[h]
			var phis []string
			for _, p := range headPhis(h) {
				phis = append(phis, p.Comment+":"+types.TypeString(p.Type(), nil))
			}
			pos := P.SSA.Fset.Position(h.Instrs[0].Pos())
			fmt.Printf("%s loop %d: head block %d (%s) line %d, %d blocks, phis %v\n", key, li.ord, h.Index, h.Comment, pos.Line, len(li.body), phis)
		}
	}
	return 0
}

func isGlobalInv(cl *Clause) bool {
	for _, p := range cl.Props {
		if p == "global" {
			return true
		}
	}
	return false
}

func isUnverified(cl *Clause) bool {
	for _, p := range cl.Props {
		if p == "unverified" {
			return true
		}
	}
	return false
}

// fieldFuncExists: package pkg (short name) declares struct type T with a field f of function type ("T.f").
func fieldFuncExists(P *Program, pkg, tf string) bool {
	sp := P.ByPkg[pkg]
	j := strings.Index(tf, ".")
	if sp == nil || j < 0 {
		return false
	}
	obj := sp.Pkg.Scope().Lookup(tf[:j])
	if obj == nil {
		return false
	}
	st, ok := obj.Type().Underlying().(*types.Struct)
	if !ok {
		return false
	}
	for i := 0; i < st.NumFields(); i++ {
		if st.Field(i).Name() == tf[j+1:] {
			_, isFunc := st.Field(i).Type().Underlying().(*types.Signature)
			return isFunc
		}
	}
	return false
}
