package main

import (
	"bytes"
	"context"
	"fmt"
	"os"
	"os/exec"
	"path/filepath"
	"strings"
	"sync"
	"time"
)

type SolveResult struct {
	Verdict string // "unsat", "sat", "unknown", "timeout", "error"
	Solver  string
	Output  string
	Secs    float64
	Model   map[string]string
	ModelList []string
	PerSolv map[string]string
}

var workDir string

func initWorkDir() {
	base := "/verif/.work"
	if d := os.Getenv("GOVC_WORK"); d != "" {
		base = d
	}
	workDir = filepath.Join(base, fmt.Sprintf("%d", os.Getpid()))
	os.MkdirAll(workDir, 0o755)
}

func cleanupWorkDir() {
	if workDir != "" && os.Getenv("GOVC_KEEP") == "" {
		os.RemoveAll(workDir)
	}
}

type solverSpec struct {
	name string
	argv func(file string, secs int) []string
}

var solvers = []solverSpec{
	{"z3", func(f string, s int) []string { return []string{"z3", fmt.Sprintf("-T:%d", s), f} }},
	{"z3-new", func(f string, s int) []string { return []string{"z3-new", fmt.Sprintf("-T:%d", s), f} }},
	{"cvc5", func(f string, s int) []string {
		return []string{"cvc5", "--produce-models", fmt.Sprintf("--tlimit=%d", s*1000), f}
	}},
}

// slots limits concurrent solver processes.
var slots = make(chan struct{}, 16)

var solverStats = struct {
	sync.Mutex
	wins  map[string]int
	total float64
	max   float64
	n     int
}{wins: map[string]int{}}

// solve races the installed solvers on one script. allSolvers=true waits for all
// of them and reports a disagreement as an error.
func solve(name, script string, timeoutSecs int, allSolvers bool) SolveResult {
	file := filepath.Join(workDir, sanitize(name)+".smt2")
	if len(filepath.Base(file)) > 200 {
		file = filepath.Join(workDir, fmt.Sprintf("q%x.smt2", hashString(name)))
	}
	if err := os.WriteFile(file, []byte(script), 0o644); err != nil {
		return SolveResult{Verdict: "error", Output: err.Error()}
	}
	ctx, cancel := context.WithCancel(context.Background())
	defer cancel()
	type one struct {
		solver, verdict, out string
		secs                 float64
	}
	ch := make(chan one, len(solvers))
	for _, s := range solvers {
		s := s
		go func() {
			slots <- struct{}{}
			defer func() { <-slots }()
			if ctx.Err() != nil {
				ch <- one{s.name, "cancelled", "", 0}
				return
			}
			argv := s.argv(file, timeoutSecs)
			cctx, ccancel := context.WithTimeout(ctx, time.Duration(timeoutSecs+5)*time.Second)
			defer ccancel()
			cmd := exec.CommandContext(cctx, argv[0], argv[1:]...)
			var out bytes.Buffer
			cmd.Stdout = &out
			cmd.Stderr = &out
			t0 := time.Now()
			cmd.Run()
			secs := time.Since(t0).Seconds()
			text := out.String()
			first := strings.TrimSpace(strings.SplitN(text, "\n", 2)[0])
			v := "unknown"
			switch {
			case first == "unsat":
				v = "unsat"
			case first == "sat":
				v = "sat"
			case first == "timeout" || strings.Contains(first, "timeout") || cctx.Err() == context.DeadlineExceeded:
				v = "timeout"
			case strings.HasPrefix(first, "(error") || strings.Contains(first, "rror"):
				v = "error"
			}
			if ctx.Err() != nil && v != "sat" && v != "unsat" {
				v = "cancelled"
			}
			ch <- one{s.name, v, text, secs}
		}()
	}
	res := SolveResult{Verdict: "unknown", PerSolv: map[string]string{}}
	var outs []string
	decided := false
	for i := 0; i < len(solvers); i++ {
		o := <-ch
		res.PerSolv[o.solver] = o.verdict
		if o.verdict == "sat" || o.verdict == "unsat" {
			if decided && res.Verdict != o.verdict {
				res.Verdict = "error"
				res.Output = fmt.Sprintf("solver disagreement: %s says %s, %s says %s", res.Solver, res.Verdict, o.solver, o.verdict)
				return res
			}
			if !decided {
				decided = true
				res.Verdict, res.Solver, res.Output, res.Secs = o.verdict, o.solver, o.out, o.secs
				if o.verdict == "sat" {
					res.Model, res.ModelList = parseModel(o.out)
				}
				if !allSolvers {
					cancel()
				}
			}
		} else if o.verdict != "cancelled" {
			outs = append(outs, fmt.Sprintf("%s: %s %s", o.solver, o.verdict, firstLines(o.out, 3)))
			if !decided && o.verdict == "timeout" {
				res.Verdict = "timeout"
			}
		}
	}
	if !decided {
		res.Output = strings.Join(outs, "\n")
	}
	solverStats.Lock()
	if decided {
		solverStats.wins[res.Solver]++
		solverStats.total += res.Secs
		if res.Secs > solverStats.max {
			solverStats.max = res.Secs
		}
	}
	solverStats.n++
	solverStats.Unlock()
	if os.Getenv("GOVC_KEEP") == "" {
		os.Remove(file)
	}
	return res
}

func firstLines(s string, n int) string {
	ls := strings.Split(strings.TrimSpace(s), "\n")
	if len(ls) > n {
		ls = ls[:n]
	}
	return strings.Join(ls, " / ")
}

func hashString(s string) uint64 {
	var h uint64 = 1469598103934665603
	for i := 0; i < len(s); i++ {
		h ^= uint64(s[i])
		h *= 1099511628211
	}
	return h
}

// parseModel reads the answer of (get-value (...)): ((name value) (name value) …).
func parseModel(out string) (map[string]string, []string) {
	m := map[string]string{}
	var list []string
	i := strings.Index(out, "\n")
	if i < 0 {
		return m, nil
	}
	s := out[i+1:]
	toks := tokenizeSexp(s)
	// expect: ( ( name val ) ( name val ) ... )
	pos := 0
	var parse func() interface{}
	parse = func() interface{} {
		if pos >= len(toks) {
			return nil
		}
		t := toks[pos]
		pos++
		if t == "(" {
			var l []interface{}
			for pos < len(toks) && toks[pos] != ")" {
				l = append(l, parse())
			}
			pos++
			return l
		}
		return t
	}
	top, _ := parse().([]interface{})
	for _, e := range top {
		pair, ok := e.([]interface{})
		if !ok || len(pair) != 2 {
			continue
		}
		m[sexpString(pair[0])] = sexpValue(pair[1])
		list = append(list, sexpValue(pair[1]))
	}
	return m, list
}

func tokenizeSexp(s string) []string {
	var toks []string
	i := 0
	for i < len(s) {
		c := s[i]
		switch {
		case c == '(' || c == ')':
			toks = append(toks, string(c))
			i++
		case c == ' ' || c == '\n' || c == '\t' || c == '\r':
			i++
		case c == '|':
			j := strings.IndexByte(s[i+1:], '|')
			if j < 0 {
				return toks
			}
			toks = append(toks, s[i+1:i+1+j])
			i += j + 2
		default:
			j := i
			for j < len(s) && !strings.ContainsRune("() \n\t\r", rune(s[j])) {
				j++
			}
			toks = append(toks, s[i:j])
			i = j
		}
	}
	return toks
}

func sexpString(e interface{}) string {
	switch v := e.(type) {
	case string:
		return v
	case []interface{}:
		var parts []string
		for _, x := range v {
			parts = append(parts, sexpString(x))
		}
		return "(" + strings.Join(parts, " ") + ")"
	}
	return ""
}

// sexpValue flattens (- 5) to -5.
func sexpValue(e interface{}) string {
	if l, ok := e.([]interface{}); ok && len(l) == 2 {
		if s, ok := l[0].(string); ok && s == "-" {
			return "-" + sexpValue(l[1])
		}
	}
	return sexpString(e)
}
