package main

import (
	"fmt"
	"os"
	"go/constant"
	"go/token"
	"go/types"
	"math/big"
	"sort"

	"golang.org/x/tools/go/ssa"
)

// ---------------------------------------------------------------- frames and CFG

type loopInfo struct {
	head   *ssa.BasicBlock
	ord    int
	body   map[*ssa.BasicBlock]bool
	spec   *LoopSpec
	unroll int
	// cut-loop bookkeeping
	entry     *State
	measure   *Term
	invHolds  []*Term
	modKeys   map[string]bool
	modAll    bool
	modCells  map[*ssa.Alloc]bool
	houdini   []*houdiniCand
	splitExit bool
}

type nodeKey struct {
	b    *ssa.BasicBlock
	iter int
}

type inEdge struct {
	from nodeKey
	st   *State // state on the edge; st.pc is the full edge condition
}

type Frame struct {
	vc      *VC
	fn      *ssa.Function
	c       *Contract
	id      int
	genv    map[ssa.Value]Value
	loops   map[*ssa.BasicBlock]*loopInfo
	inLoop  map[*ssa.BasicBlock]*loopInfo // innermost unrolled loop containing the block
	incoming map[nodeKey][]inEdge
	cellOf  map[*ssa.Alloc]*Cell
	returns []retInfo
	top     bool
	names   map[string]CV // contract-visible names (params)
	entry   *State
	prefix  string
	curNode nodeKey
	curState *State
	oblPrefix string
	callCount map[string]int
	idxCount  map[string]int
	pred    map[nodeKey]nodeKey
	ghostVals []Value
}

type retInfo struct {
	st     *State
	vals   []Value
	ghosts []Value
	line   int
	tag    int
}

func (vc *VC) newFrame(fn *ssa.Function, c *Contract, top bool) *Frame {
	vc.nFrame++
	f := &Frame{vc: vc, fn: fn, c: c, id: vc.nFrame, genv: map[ssa.Value]Value{}, top: top,
		incoming: map[nodeKey][]inEdge{}, cellOf: map[*ssa.Alloc]*Cell{}, names: map[string]CV{},
		callCount: map[string]int{}, idxCount: map[string]int{}}
	f.prefix = fmt.Sprintf("f%d_", f.id)
	if top {
		f.prefix = ""
	}
	return f
}

func (f *Frame) analyzeLoops() error {
	fn := f.fn
	f.loops = map[*ssa.BasicBlock]*loopInfo{}
	f.inLoop = map[*ssa.BasicBlock]*loopInfo{}
	preds := func(b *ssa.BasicBlock) []*ssa.BasicBlock { return b.Preds }
	for _, b := range fn.Blocks {
		for _, s := range b.Succs {
			if s.Dominates(b) {
				li := f.loops[s]
				if li == nil {
					li = &loopInfo{head: s, body: map[*ssa.BasicBlock]bool{s: true}}
					f.loops[s] = li
				}
				// natural loop of back edge b->s
				stack := []*ssa.BasicBlock{b}
				for len(stack) > 0 {
					x := stack[len(stack)-1]
					stack = stack[:len(stack)-1]
					if li.body[x] {
						continue
					}
					li.body[x] = true
					stack = append(stack, preds(x)...)
				}
			}
		}
	}
	var heads []*ssa.BasicBlock
	for h := range f.loops {
		heads = append(heads, h)
	}
	sort.Slice(heads, func(i, j int) bool { return heads[i].Index < heads[j].Index })
	for i, h := range heads {
		li := f.loops[h]
		li.ord = i + 1
		if f.c != nil {
			li.spec = f.c.Loops[li.ord]
		}
		if li.spec != nil && li.spec.Unroll > 0 {
			li.unroll = li.spec.Unroll
			li.splitExit = li.spec.SplitExit
		}
	}
	if f.c != nil {
		for n := range f.c.Loops {
			if n < 1 || n > len(heads) {
				return fmt.Errorf("contract for %s names loop %d but the function has %d loops", f.c.Key, n, len(heads))
			}
		}
	}
	for _, h := range heads {
		li := f.loops[h]
		if li.unroll == 0 {
			continue
		}
		for b := range li.body {
			if other := f.inLoop[b]; other != nil && other != li {
				return fmt.Errorf("nested unrolled loops in %s", fn.Name())
			}
			f.inLoop[b] = li
		}
	}
	return nil
}

// rpo returns blocks in reverse post-order ignoring back edges.
func (f *Frame) rpo() []*ssa.BasicBlock {
	seen := map[*ssa.BasicBlock]bool{}
	var post []*ssa.BasicBlock
	var dfs func(b *ssa.BasicBlock)
	dfs = func(b *ssa.BasicBlock) {
		seen[b] = true
		for _, s := range b.Succs {
			if s.Dominates(b) {
				continue
			}
			if !seen[s] {
				dfs(s)
			}
		}
		post = append(post, b)
	}
	dfs(f.fn.Blocks[0])
	for i, j := 0, len(post)-1; i < j; i, j = i+1, j-1 {
		post[i], post[j] = post[j], post[i]
	}
	return post
}

func (f *Frame) nodeOrder() []nodeKey {
	order := f.rpo()
	var out []nodeKey
	done := map[*ssa.BasicBlock]bool{}
	tags := 0 // > 0: blocks after a split-exit loop are emitted once per exit tag
	for _, b := range order {
		if done[b] {
			continue
		}
		if li := f.inLoop[b]; li != nil {
			var blocks []*ssa.BasicBlock
			for _, x := range order {
				if li.body[x] {
					blocks = append(blocks, x)
					done[x] = true
				}
			}
			for it := 0; it <= li.unroll; it++ {
				for _, x := range blocks {
					out = append(out, nodeKey{x, it})
				}
			}
			if li.splitExit {
				tags = li.unroll + 1
			}
			continue
		}
		done[b] = true
		for t := 0; t <= tags; t++ {
			out = append(out, nodeKey{b, t})
		}
	}
	return out
}

// ---------------------------------------------------------------- env

func (f *Frame) lookup(st *State, v ssa.Value) Value {
	switch x := v.(type) {
	case *ssa.Const:
		return f.constValue(x)
	case *ssa.Global:
		return f.vc.globalPtr(x)
	case *ssa.Function:
		return VT{f.vc.B.Int(int64(f.vc.typeID("func:" + x.String())))}
	case *ssa.Builtin:
		return VT{f.vc.B.Int(0)}
	}
	if ins, ok := v.(ssa.Instruction); ok && ins.Block() != nil {
		if f.inLoop[ins.Block()] != nil || f.noMerge() {
			if r, ok := st.lenv[v]; ok {
				return r
			}
		}
	}
	if r, ok := f.genv[v]; ok {
		return r
	}
	if r, ok := st.lenv[v]; ok {
		return r
	}
	// free variable of a closure or a value we never defined: havoc
	f.vc.note("use of undefined value %s in %s havocked", v.Name(), f.fn.Name())
	r := f.vc.freshValue(f.prefix+v.Name()+"_undef", v.Type())
	f.genv[v] = r
	return r
}

func (f *Frame) define(st *State, ins ssa.Instruction, v ssa.Value, val Value) {
	if val == nil {
		val = f.vc.freshValue(f.prefix+v.Name()+"_bad", v.Type())
	}
	if f.inLoop[ins.Block()] != nil || f.noMerge() {
		st.lenv[v] = val
		return
	}
	f.genv[v] = val
}

func (vc *VC) typeID(name string) int {
	if id, ok := vc.typeIDs[name]; ok {
		return id
	}
	id := len(vc.typeIDs) + 1
	vc.typeIDs[name] = id
	return id
}

func (f *Frame) constValue(c *ssa.Const) Value {
	B := f.vc.B
	t := c.Type()
	if c.Value == nil {
		return f.vc.zeroValue(t)
	}
	switch c.Value.Kind() {
	case constant.Bool:
		return VT{B.Bool(constant.BoolVal(c.Value))}
	case constant.Int:
		if isFloat(t) {
			return f.vc.floatConst(c.Value)
		}
		bi, _ := new(big.Int).SetString(c.Value.ExactString(), 10)
		return VT{B.Big(bi)}
	case constant.String:
		return f.vc.stringConst(constant.StringVal(c.Value))
	case constant.Float:
		return f.vc.floatConst(c.Value)
	}
	return f.vc.freshValue("const", t)
}

func (vc *VC) floatConst(v constant.Value) Value {
	name := "fconst_" + sanitize(v.ExactString())
	vc.B.DefineFun(name, nil, SInt, "", nil)
	t := vc.B.App(name)
	// constants are finite
	vc.ensureFloatFuns()
	vc.fact(vc.B.And(vc.B.Not(vc.B.App("f_isnan", t)), vc.B.Not(vc.B.App("f_isinf", t))))
	if constant.Sign(v) == 0 {
		vc.fact(vc.B.App("f_iszero", t))
	}
	return VT{t}
}

func (vc *VC) ensureFloatFuns() {
	vc.B.DefineFun("f_isnan", []Sort{SInt}, SBool, "", nil)
	vc.B.DefineFun("f_isinf", []Sort{SInt}, SBool, "", nil)
	vc.B.DefineFun("f_isposinf", []Sort{SInt}, SBool, "", nil)
	vc.B.DefineFun("f_isneginf", []Sort{SInt}, SBool, "", nil)
	vc.B.DefineFun("f_iszero", []Sort{SInt}, SBool, "", nil)
	vc.B.DefineFun("f_32to64", []Sort{SInt}, SInt, "", nil)
	vc.B.DefineFun("f_64to32", []Sort{SInt}, SInt, "", nil)
}

func (vc *VC) stringConst(s string) Value {
	B := vc.B
	if p, ok := vc.strConsts[s]; ok {
		return VString{p, B.Int(int64(len(s)))}
	}
	p := B.Fresh("strconst", SInt)
	vc.strConsts[s] = p
	vc.fact(B.And(B.Lt(B.Int(0), p), B.Lt(B.Add(p, B.Int(int64(len(s)))), B.Big(maxAddr))))
	return VString{p, B.Int(int64(len(s)))}
}

// constStringAt: byte idx of a string constant, as a table function of the literal.
func (vc *VC) constStringAt(ptr, idx *Term) *Term {
	for s, p := range vc.strConsts {
		if p != ptr {
			continue
		}
		if len(s) == 0 || len(s) > 256 {
			return nil
		}
		vals := make([]*big.Int, len(s))
		for i := range vals {
			vals[i] = big.NewInt(int64(s[i]))
		}
		name := vc.B.tableFun(fmt.Sprintf("strlit_%x", hashString(s)), vals, false)
		return vc.B.App(name, idx)
	}
	return nil
}

func (vc *VC) zeroValue(t types.Type) Value {
	B := vc.B
	switch u := t.Underlying().(type) {
	case *types.Basic:
		switch {
		case isBool(t):
			return VT{B.False()}
		case isString(t):
			return VString{B.Int(0), B.Int(0)}
		case isFloat(t):
			return vc.floatConst(constant.MakeInt64(0))
		}
		return VT{B.Int(0)}
	case *types.Slice:
		return VSlice{B.Int(0), B.Int(0), B.Int(0)}
	case *types.Interface:
		return VIface{B.Int(0), B.Int(0)}
	case *types.Struct:
		out := make([]Value, u.NumFields())
		for i := range out {
			out[i] = vc.zeroValue(u.Field(i).Type())
		}
		return VTuple{out}
	case *types.Array:
		if u.Len() <= 16 {
			out := make([]Value, u.Len())
			for i := range out {
				out[i] = vc.zeroValue(u.Elem())
			}
			return VTuple{out}
		}
	}
	return VT{B.Int(0)}
}

// ---------------------------------------------------------------- obligations

func (f *Frame) oblName(kind, detail string) string {
	base := f.oblPrefix
	if base == "" {
		base = funcKey(f.fn)
	}
	n := base + "/" + kind
	if detail != "" {
		n += "@" + detail
	}
	f.vc.counters[n]++
	n = fmt.Sprintf("%s#%d", n, f.vc.counters[n])
	if f.vc.caseTag != "" {
		n += "[" + f.vc.caseTag + "]"
	}
	return n
}

func (f *Frame) oblige(st *State, kind, detail, text string, pos token.Pos, goal *Term, cl *Clause) {
	if goal.IsTrue() || st.pc.IsFalse() {
		// trivially discharged by construction; still count it
		f.vc.counters["trivial"]++
		return
	}
	o := &Obligation{Name: f.oblName(kind, detail), Kind: kind, Func: funcKey(f.fn), Text: text,
		Hyps: []*Term{st.pc}, Goal: goal, NFacts: len(f.vc.facts), vc: f.vc, Clause: cl}
	// facts created while evaluating the goal itself belong to the current state as well
	o.FIdx = append([]int{}, st.fidx...)
	if f.vc.cur != nil && f.vc.cur != st {
		o.FIdx = append(o.FIdx, f.vc.cur.fidx...)
	}
	if pos.IsValid() {
		o.Pos = f.vc.P.SSA.Fset.Position(pos).String()
	}
	if cl != nil {
		o.Pos = cl.Pos
		o.Props = cl.Props
	}
	f.vc.obls = append(f.vc.obls, o)
}

// safety obligations are generated only when the contract asks for them
func (f *Frame) safety() bool {
	if f.c != nil {
		return f.c.Safety
	}
	return true
}

// ---------------------------------------------------------------- running a function body

type unsupported struct{ msg string }

// run executes fn from st with the given argument values and returns the merged
// return state and values (nil state: no return reachable).
func (f *Frame) run(st *State, args []Value) (*State, []Value, error) {
	fn := f.fn
	if len(fn.Blocks) == 0 {
		return nil, nil, fmt.Errorf("function %s has no body", fn.Name())
	}
	if err := f.analyzeLoops(); err != nil {
		return nil, nil, err
	}
	for i, p := range fn.Params {
		f.genv[p] = args[i]
	}
	for _, fv := range fn.FreeVars {
		f.genv[fv] = f.vc.freshValue(f.prefix+"fv_"+fv.Name(), fv.Type())
	}
	f.entry = st.clone()
	order := f.nodeOrder()
	f.incoming[order[0]] = []inEdge{{st: st}}
	for _, nk := range order {
		ins := f.incoming[nk]
		if len(ins) == 0 {
			continue
		}
		if err := f.execNode(nk, ins); err != nil {
			return nil, nil, err
		}
		delete(f.incoming, nk)
	}
	if len(f.returns) == 0 {
		return nil, nil, nil
	}
	// merge returns
	var sts []*State
	for _, r := range f.returns {
		sts = append(sts, r.st)
	}
	nres := len(f.returns[0].vals)
	vals := make([]Value, nres)
	for i := 0; i < nres; i++ {
		acc := f.returns[0].vals[i]
		accPC := f.returns[0].st.pc
		for _, r := range f.returns[1:] {
			if !valueEq(acc, r.vals[i]) {
				m := f.vc.mergeValue(accPC, acc, r.vals[i])
				if m == nil {
					m = f.vc.freshValue(f.prefix+"retmerge", fn.Signature.Results().At(i).Type())
					f.vc.note("return values of %s could not be merged; havocked", fn.Name())
				}
				acc = m
			}
			accPC = f.vc.B.Or(accPC, r.st.pc)
		}
		vals[i] = acc
	}
	if len(f.returns[0].ghosts) > 0 {
		f.ghostVals = make([]Value, len(f.returns[0].ghosts))
		for i := range f.ghostVals {
			acc := f.returns[0].ghosts[i]
			accPC := f.returns[0].st.pc
			for _, r := range f.returns[1:] {
				if !valueEq(acc, r.ghosts[i]) {
					acc = f.vc.mergeValue(accPC, acc, r.ghosts[i])
				}
				accPC = f.vc.B.Or(accPC, r.st.pc)
			}
			f.ghostVals[i] = acc
		}
	}
	return f.vc.mergeStates(sts), vals, nil
}

func (f *Frame) edgeTarget(from nodeKey, s *ssa.BasicBlock) (nodeKey, string) {
	b := from.b
	if s.Dominates(b) && f.loops[s] != nil && f.loops[s].body[b] {
		li := f.loops[s]
		if li.unroll > 0 {
			if from.iter < li.unroll {
				return nodeKey{s, from.iter + 1}, "next"
			}
			return nodeKey{}, "unwind"
		}
		return nodeKey{s, 0}, "back"
	}
	lu, ls := f.inLoop[b], f.inLoop[s]
	if ls != nil && lu == ls {
		return nodeKey{s, from.iter}, "fwd"
	}
	if lu != nil && ls == nil && lu.splitExit {
		return nodeKey{s, from.iter + 1}, "fwd" // exit tag = iteration + 1
	}
	if lu == nil && ls == nil {
		return nodeKey{s, from.iter}, "fwd" // keep the exit tag
	}
	return nodeKey{s, 0}, "fwd"
}

func (f *Frame) noMerge() bool { return f.c != nil && f.c.NoMerge }

func (f *Frame) execNode(nk nodeKey, ins []inEdge) error {
	if f.noMerge() && len(ins) > 1 {
		if li := f.loops[nk.b]; li == nil || li.unroll > 0 {
			n := 0
			for _, e := range ins {
				if e.st.pc.IsFalse() {
					continue
				}
				n++
				if n > 4096 {
					return fmt.Errorf("%s: too many paths for nomerge", f.fn.Name())
				}
				if err := f.execNode(nk, []inEdge{e}); err != nil {
					return err
				}
			}
			return nil
		}
	}
	vc := f.vc
	B := vc.B
	b := nk.b
	var live []inEdge
	for _, e := range ins {
		if !e.st.pc.IsFalse() {
			live = append(live, e)
		}
	}
	if len(live) == 0 {
		return nil
	}
	li := f.loops[b]
	isCut := li != nil && li.unroll == 0
	var st *State
	if isCut {
		var err error
		st, err = f.enterCutLoop(li, live)
		if err != nil {
			return err
		}
	} else {
		// evaluate phis per incoming edge, then merge
		var phis []*ssa.Phi
		for _, in := range b.Instrs {
			if p, ok := in.(*ssa.Phi); ok {
				phis = append(phis, p)
			} else {
				break
			}
		}
		phiVals := make([][]Value, len(live))
		for i, e := range live {
			phiVals[i] = make([]Value, len(phis))
			pi := predIndex(b, e.from.b)
			for j, p := range phis {
				phiVals[i][j] = f.lookup(e.st, p.Edges[pi])
			}
		}
		var sts []*State
		for _, e := range live {
			sts = append(sts, e.st)
		}
		if len(sts) == 1 {
			st = sts[0]
		} else {
			st = vc.mergeStates(sts)
		}
		for j, p := range phis {
			acc := phiVals[0][j]
			accPC := live[0].st.pc
			for i := 1; i < len(live); i++ {
				if !valueEq(acc, phiVals[i][j]) {
					m := vc.mergeValue(accPC, acc, phiVals[i][j])
					if m == nil {
						vc.note("phi %s in %s merges incompatible pointer provenances; havocked", p.Name(), f.fn.Name())
						m = vc.freshValue(f.prefix+p.Name()+"_phi", p.Type())
					}
					acc = m
				}
				accPC = B.Or(accPC, live[i].st.pc)
			}
			f.define(st, p, p, acc)
		}
	}
	f.curNode = nk
	prevCur := vc.cur
	vc.cur = st
	if os.Getenv("GOVC_DBGF") != "" {
		fmt.Fprintf(os.Stderr, "node b%d/%d: in fidx=%d ins=%d\n", nk.b.Index, nk.iter, len(st.fidx), len(ins))
		defer func() { fmt.Fprintf(os.Stderr, "node b%d/%d: out fidx=%d\n", nk.b.Index, nk.iter, len(st.fidx)) }()
	}
	defer func() { vc.cur = prevCur }()
	// body
	for _, in := range b.Instrs {
		if _, ok := in.(*ssa.Phi); ok {
			continue
		}
		done, err := f.execInstr(st, nk, in)
		if err != nil {
			return err
		}
		if done {
			break
		}
	}
	return nil
}

func predIndex(b, pred *ssa.BasicBlock) int {
	for i, p := range b.Preds {
		if p == pred {
			return i
		}
	}
	return -1
}

func (f *Frame) propagate(from nodeKey, st *State, s *ssa.BasicBlock, cond *Term) {
	vc := f.vc
	ns := st.clone()
	ns.pc = vc.B.And(st.pc, cond)
	if ns.pc.IsFalse() {
		return
	}
	tgt, kind := f.edgeTarget(from, s)
	switch kind {
	case "unwind":
		li := f.loops[s]
		f.oblige(ns, "unwind", fmt.Sprintf("loop%d", li.ord), fmt.Sprintf("loop %d exits within %d iterations", li.ord, li.unroll), s.Instrs[0].Pos(), vc.B.False(), nil)
	case "back":
		f.backEdge(f.loops[s], from, ns)
	default:
		f.incoming[tgt] = append(f.incoming[tgt], inEdge{from: from, st: ns})
	}
}

// ---------------------------------------------------------------- instructions

func (f *Frame) execInstr(st *State, nk nodeKey, in ssa.Instruction) (bool, error) {
	vc := f.vc
	B := vc.B
	switch x := in.(type) {
	case *ssa.DebugRef:
		return false, nil
	case *ssa.Jump:
		f.propagate(nk, st, nk.b.Succs[0], B.True())
		return true, nil
	case *ssa.If:
		c := f.lookup(st, x.Cond).(VT).T
		f.propagate(nk, st, nk.b.Succs[0], c)
		f.propagate(nk, st, nk.b.Succs[1], B.Not(c))
		return true, nil
	case *ssa.Return:
		vals := make([]Value, len(x.Results))
		for i, r := range x.Results {
			vals[i] = f.lookup(st, r)
		}
		ri := retInfo{st: st, vals: vals, line: f.vc.P.SSA.Fset.Position(x.Pos()).Line, tag: nk.iter}
		if f.top && f.c != nil {
			for _, g := range f.c.Ghosts {
				ctx := f.newCtx(st, f.entry)
				ctx.at = nk.b
				ctx.atEnd = true
				res := f.fn.Signature.Results()
				for i := 0; i < res.Len() && i < len(f.c.Results); i++ {
					ctx.names[f.c.Results[i]] = CV{vals[i], res.At(i).Type()}
				}
				t, err := ctx.evalIntSafe(g.Body)
				if err != nil {
					// not evaluable on this return path (variable not in scope): unconstrained
					t = f.vc.B.Fresh(f.prefix+"ghost_"+g.Name, SInt)
					if os.Getenv("GOVC_DBGGHOST") != "" {
						fmt.Fprintf(os.Stderr, "ghost %s at line %d: %v\n", g.Name, ri.line, err)
					}
				}
				ri.ghosts = append(ri.ghosts, VT{t})
			}
		}
		f.returns = append(f.returns, ri)
		return true, nil
	case *ssa.Panic:
		if f.safety() {
			f.oblige(st, "panic", "", "explicit panic is unreachable", x.Pos(), B.False(), nil)
		}
		return true, nil
	case *ssa.Alloc:
		f.execAlloc(st, x)
	case *ssa.Store:
		f.execStore(st, x)
	case *ssa.UnOp:
		f.define(st, x, x, f.execUnOp(st, x))
	case *ssa.BinOp:
		f.define(st, x, x, f.execBinOp(st, x))
	case *ssa.Convert:
		f.define(st, x, x, f.execConvert(st, x))
	case *ssa.ChangeType:
		f.define(st, x, x, f.lookup(st, x.X))
	case *ssa.ChangeInterface:
		f.define(st, x, x, f.lookup(st, x.X))
	case *ssa.MakeInterface:
		f.define(st, x, x, f.execMakeInterface(st, x))
	case *ssa.FieldAddr:
		f.define(st, x, x, f.execFieldAddr(st, x))
	case *ssa.Field:
		v := f.lookup(st, x.X)
		if tu, ok := v.(VTuple); ok && x.Field < len(tu.Elems) {
			f.define(st, x, x, tu.Elems[x.Field])
		} else {
			f.define(st, x, x, nil)
		}
	case *ssa.IndexAddr:
		f.define(st, x, x, f.execIndexAddr(st, x))
	case *ssa.Index:
		f.define(st, x, x, f.execIndex(st, x))
	case *ssa.Lookup:
		f.define(st, x, x, f.execLookup(st, x))
	case *ssa.Slice:
		f.define(st, x, x, f.execSlice(st, x))
	case *ssa.Extract:
		v := f.lookup(st, x.Tuple)
		if tu, ok := v.(VTuple); ok && x.Index < len(tu.Elems) {
			f.define(st, x, x, tu.Elems[x.Index])
		} else {
			f.define(st, x, x, nil)
		}
	case *ssa.Call:
		f.define(st, x, x, f.execCall(st, x))
	case *ssa.MakeSlice:
		f.define(st, x, x, f.execMakeSlice(st, x))
	case *ssa.MakeMap, *ssa.MakeChan:
		v := in.(ssa.Value)
		a := B.Fresh(f.prefix+v.Name()+"_new", SInt)
		vc.fact(B.And(B.Lt(B.Int(0), a), B.Lt(a, B.Big(maxAddr))))
		f.define(st, in, v, VT{a})
	case *ssa.MakeClosure:
		a := B.Fresh(f.prefix+x.Name()+"_clo", SInt)
		vc.fact(B.And(B.Lt(B.Int(0), a), B.Lt(a, B.Big(maxAddr))))
		f.define(st, x, x, VT{a})
	case *ssa.TypeAssert:
		f.define(st, x, x, f.execTypeAssert(st, x))
	case *ssa.MapUpdate:
		vc.note("map update treated as opaque")
	case *ssa.Range, *ssa.Next:
		v := in.(ssa.Value)
		f.define(st, in, v, vc.freshValue(f.prefix+v.Name(), v.Type()))
		vc.note("map/string range iteration is opaque")
	case *ssa.RunDefers:
		if hasDefer(f.fn) {
			vc.havocAll(st, "deferred calls in "+f.fn.Name())
		}
	case *ssa.Defer:
		vc.note("defer in %s: deferred call effects are havoc at function exit", f.fn.Name())
	case *ssa.Go, *ssa.Send, *ssa.Select:
		return false, fmt.Errorf("%s: concurrency instruction %T outside the subset", f.fn.Name(), in)
	case *ssa.SliceToArrayPointer:
		v := f.lookup(st, x.X)
		if s, ok := v.(VSlice); ok {
			f.define(st, x, x, VT{s.Ptr})
		} else {
			f.define(st, x, x, nil)
		}
	case *ssa.MultiConvert:
		f.define(st, x, x, nil)
	default:
		if v, ok := in.(ssa.Value); ok {
			vc.note("instruction %T havocked", in)
			f.define(st, in, v, nil)
		}
	}
	return false, nil
}

func hasDefer(fn *ssa.Function) bool {
	for _, b := range fn.Blocks {
		for _, in := range b.Instrs {
			if _, ok := in.(*ssa.Defer); ok {
				return true
			}
		}
	}
	return false
}

// allocEscapes reports whether the address of an Alloc is used for anything but
// local loads, stores and address arithmetic.
func allocEscapes(a ssa.Value, seen map[ssa.Value]bool) bool {
	if seen[a] {
		return false
	}
	seen[a] = true
	refs := a.Referrers()
	if refs == nil {
		return true
	}
	for _, r := range *refs {
		switch u := r.(type) {
		case *ssa.DebugRef:
		case *ssa.UnOp:
			if u.Op != token.MUL {
				return true
			}
		case *ssa.Store:
			if u.Val == a {
				return true
			}
		case *ssa.FieldAddr:
			if allocEscapes(u, seen) {
				return true
			}
		case *ssa.IndexAddr:
			if u.X != a || allocEscapes(u, seen) {
				return true
			}
		case *ssa.Convert:
			// *T -> unsafe.Pointer -> *U chains stay local if their results do
			if allocEscapes(u, seen) {
				return true
			}
		case *ssa.ChangeType:
			if allocEscapes(u, seen) {
				return true
			}
		case *ssa.Phi:
			return true
		default:
			return true
		}
	}
	return false
}

func (f *Frame) execAlloc(st *State, x *ssa.Alloc) {
	vc := f.vc
	B := vc.B
	t := x.Type().(*types.Pointer).Elem()
	esc := allocEscapes(x, map[ssa.Value]bool{})
	var leaves []Leaf
	flatErr := flatten(t, 0, &leaves)
	if !esc {
		c := vc.newCell(f.prefix+x.Name(), t)
		if c.Bytes || flatErr == nil {
			f.cellOf[x] = c
			vc.zeroCell(st, c)
			f.define(st, x, x, VPtr{Cell: c})
			return
		}
	}
	// materialised in the heap at a fresh address
	a := B.Fresh(f.prefix+x.Name()+"_new", SInt)
	sz := sizeOf(t)
	vc.fact(B.And(B.Lt(B.Int(0), a), B.Le(B.Add(a, B.Int(sz)), B.Big(maxAddr))))
	vc.freshRegion(st, a, B.Int(sz))
	// a new object does not overlap the objects the typed pointer parameters point to (they were live on entry)
	for _, prm := range f.fn.Params {
		pt, ok := prm.Type().Underlying().(*types.Pointer)
		if !ok {
			continue
		}
		var pa *Term
		switch pv := f.lookup(st, prm).(type) {
		case VT:
			pa = pv.T
		case VPtr:
			if pv.Cell == nil {
				pa = pv.Addr
			}
		}
		if pa == nil {
			continue
		}
		psz := sizeOf(pt.Elem())
		if psz <= 0 {
			continue
		}
		vc.fact(B.Or(B.Eq(pa, B.Int(0)), B.Le(B.Add(a, B.Int(sz)), pa), B.Le(B.Add(pa, B.Int(psz)), a)))
	}
	if arr, ok := t.Underlying().(*types.Array); ok {
		if _, _, isInt := intInfo(arr.Elem()); isInt && sz <= 64 {
			M := vc.heapGet(st, "M")
			for i := int64(0); i < sz; i++ {
				M = B.Store(M, B.Add(a, B.Int(i)), B.Int(0))
			}
			vc.heapSet(st, "M", M)
		}
	} else if flatErr == nil {
		vc.storeTyped(st, a, "", t, vc.zeroValue(t))
	}
	f.define(st, x, x, VT{a})
}

// freshRegion records a new allocation: disjoint from every region known so far.
func (vc *VC) freshRegion(st *State, base, size *Term) {
	B := vc.B
	for _, r := range vc.regions {
		// disjointness is only stated against non-empty regions
		ext := r.Size
		if r.Own != nil {
			ext = r.Own
		}
		vc.fact(B.Or(B.Le(B.Add(base, size), r.Base), B.Le(B.Add(r.Base, ext), base), B.Le(ext, B.Int(0))))
	}
	vc.regions = append(vc.regions, Region{Base: base, Size: size, What: "alloc", Writable: true})
}

func (f *Frame) ptrElem(v ssa.Value) types.Type {
	if p, ok := v.Type().Underlying().(*types.Pointer); ok {
		return p.Elem()
	}
	return nil
}

// isRawPointer: the SSA value derives from an unsafe.Pointer/uintptr conversion.
func isRawPointer(v ssa.Value, depth int) bool {
	if depth > 6 {
		return false
	}
	switch x := v.(type) {
	case *ssa.Convert:
		if b, ok := x.X.Type().Underlying().(*types.Basic); ok && (b.Kind() == types.UnsafePointer || b.Kind() == types.Uintptr) {
			return true
		}
		return isRawPointer(x.X, depth+1)
	case *ssa.FieldAddr:
		return isRawPointer(x.X, depth+1)
	case *ssa.IndexAddr:
		return isRawPointer(x.X, depth+1)
	case *ssa.ChangeType:
		return isRawPointer(x.X, depth+1)
	case *ssa.UnOp:
		// a pointer loaded through a reinterpreted location is itself a raw address
		if x.Op == token.MUL {
			return isRawPointer(x.X, depth+1)
		}
	}
	return false
}

func (f *Frame) nilCheck(st *State, addr *Term, what string, pos token.Pos) {
	if !f.safety() || addr.IsConst() && addr.ival.Sign() != 0 {
		return
	}
	f.oblige(st, "nil", what, "pointer "+what+" is not nil", pos, f.vc.B.Ne(addr, f.vc.B.Int(0)), nil)
}

func (f *Frame) rawAccess(st *State, addr *Term, size int64, write bool, pos token.Pos, what string) {
	if !f.safety() {
		return
	}
	B := f.vc.B
	var alts []*Term
	for _, r := range f.vc.regions {
		if write && !r.Writable {
			continue
		}
		alts = append(alts, B.And(B.Le(r.Base, addr), B.Le(B.Add(addr, B.Int(size)), B.Add(r.Base, r.Size))))
	}
	kind := "rawread"
	if write {
		kind = "rawwrite"
	}
	f.oblige(st, kind, what, fmt.Sprintf("raw %d-byte access at %s stays inside a known object", size, what), pos, B.Or(alts...), nil)
}

// checkReads: with a reads clause, every heap class loaded must be listed.
func (f *Frame) checkReads(st *State, key string, t types.Type, pos token.Pos) {
	if !f.top || f.c == nil || !f.c.HasReads {
		return
	}
	allowed := newModSet()
	for _, a := range f.c.Reads {
		f.vc.assignEntryClasses(a, f.c, allowed)
	}
	if allowed.all {
		return
	}
	got := map[string]bool{}
	storeClasses(key, t, got)
	for k := range got {
		if !allowed.keys[k] {
			f.oblige(st, "reads", k, "load from heap class "+k+" is permitted by the reads clause", pos, f.vc.B.False(), nil)
		}
	}
}

func (f *Frame) load(st *State, pv Value, t types.Type, src ssa.Value, pos token.Pos) Value {
	vc := f.vc
	switch p := pv.(type) {
	case VPtr:
		if p.Cell != nil {
			return vc.cellLoad(st, p, t)
		}
		f.checkReads(st, p.Key, t, pos)
		if p.Raw {
			f.rawAccess(st, p.Addr, sizeOf(t), false, pos, src.Name())
		}
		return vc.loadTyped(st, p.Addr, p.Key, t)
	case VT:
		if _, captured := src.(*ssa.FreeVar); captured {
			// a variable captured by the closure: always allocated, private to the closure
			return vc.loadTyped(st, p.T, "", t)
		}
		if isRawPointer(src, 0) {
			f.rawAccess(st, p.T, sizeOf(t), false, pos, src.Name())
		} else {
			f.nilCheck(st, p.T, src.Name(), pos)
		}
		f.checkReads(st, "", t, pos)
		return vc.loadTyped(st, p.T, "", t)
	}
	return vc.freshValue(f.prefix+"load", t)
}

func (f *Frame) execUnOp(st *State, x *ssa.UnOp) Value {
	vc := f.vc
	B := vc.B
	v := f.lookup(st, x.X)
	switch x.Op {
	case token.MUL:
		return f.load(st, v, x.Type(), x.X, x.Pos())
	case token.NOT:
		return VT{B.Not(v.(VT).T)}
	case token.SUB:
		if isFloat(x.Type()) {
			return vc.freshValue(f.prefix+x.Name(), x.Type())
		}
		bits, signed, _ := intInfo(x.Type())
		return VT{vc.wrap(B.Neg(v.(VT).T), bits, signed)}
	case token.XOR:
		bits, signed, _ := intInfo(x.Type())
		t := v.(VT).T
		if signed {
			return VT{B.Sub(B.Neg(t), B.Int(1))}
		}
		return VT{B.Sub(B.Big(new(big.Int).Sub(pow2(bits), big.NewInt(1))), t)}
	}
	return nil
}

// wrap reduces a mathematical integer into the range of a machine type. The
// result is a closed term (no fresh symbols) when a single correction suffices.
func (vc *VC) wrap(t *Term, bits uint, signed bool) *Term {
	B := vc.B
	lo, hi := intRange(bits, signed)
	full := pow2(bits)
	if t.IsConst() {
		v := new(big.Int).Mod(t.ival, full) // Go's Mod is Euclidean for positive modulus
		if signed && v.Cmp(hi) > 0 {
			v.Sub(v, full)
		}
		return B.Big(v)
	}
	k := B.Fresh("k", SInt)
	r := B.Sub(t, B.Mul(B.Big(full), k))
	vc.fact(B.And(B.Le(B.Big(lo), r), B.Le(r, B.Big(hi))))
	return r
}

// wrap1 is for sums/differences of in-range operands: one correction at most.
func (vc *VC) wrap1(t *Term, bits uint, signed bool) *Term {
	B := vc.B
	if t.IsConst() {
		return vc.wrap(t, bits, signed)
	}
	lo, hi := intRange(bits, signed)
	full := B.Big(pow2(bits))
	return B.Ite(B.Gt(t, B.Big(hi)), B.Sub(t, full), B.Ite(B.Lt(t, B.Big(lo)), B.Add(t, full), t))
}

func (vc *VC) pow2Fun() {
	vals := make([]*big.Int, 65)
	for i := range vals {
		vals[i] = pow2(uint(i))
	}
	vc.B.tableFun("pow2", vals, false)
}

func (f *Frame) execBinOp(st *State, x *ssa.BinOp) Value {
	vc := f.vc
	B := vc.B
	a := f.lookup(st, x.X)
	b := f.lookup(st, x.Y)
	t := x.X.Type()
	// comparisons on non-scalars
	switch x.Op {
	case token.EQL, token.NEQ:
		eq := f.valuesEqual(st, a, b, t)
		if eq == nil {
			return vc.freshValue(f.prefix+x.Name(), x.Type())
		}
		if x.Op == token.NEQ {
			return VT{B.Not(eq)}
		}
		return VT{eq}
	}
	if isString(t) {
		switch x.Op {
		case token.ADD:
			sa, sb := a.(VString), b.(VString)
			r := VString{B.Fresh(f.prefix+x.Name()+".ptr", SInt), B.Add(sa.Len, sb.Len)}
			vc.stringInv(r)
			vc.note("string concatenation content is opaque")
			return r
		}
		return vc.freshValue(f.prefix+x.Name(), x.Type())
	}
	if isFloat(t) {
		return vc.freshValue(f.prefix+x.Name(), x.Type())
	}
	at, aok := a.(VT)
	bt, bok := b.(VT)
	if !aok || !bok {
		if pa, ok := a.(VPtr); ok && pa.Cell == nil {
			at, aok = VT{pa.Addr}, true
		}
		if pb, ok := b.(VPtr); ok && pb.Cell == nil {
			bt, bok = VT{pb.Addr}, true
		}
		if !aok || !bok {
			return vc.freshValue(f.prefix+x.Name(), x.Type())
		}
	}
	if isBool(t) {
		switch x.Op {
		case token.AND, token.LAND:
			return VT{B.And(at.T, bt.T)}
		case token.OR, token.LOR:
			return VT{B.Or(at.T, bt.T)}
		}
	}
	bits, signed, ok := intInfo(x.Type())
	if !ok {
		bits, signed, _ = intInfo(t)
	}
	switch x.Op {
	case token.LSS:
		return VT{B.Lt(at.T, bt.T)}
	case token.LEQ:
		return VT{B.Le(at.T, bt.T)}
	case token.GTR:
		return VT{B.Gt(at.T, bt.T)}
	case token.GEQ:
		return VT{B.Ge(at.T, bt.T)}
	case token.ADD:
		return VT{vc.wrap1(B.Add(at.T, bt.T), bits, signed)}
	case token.SUB:
		return VT{vc.wrap1(B.Sub(at.T, bt.T), bits, signed)}
	case token.MUL:
		pr := B.Mul(at.T, bt.T)
		vc.noteProduct(at.T, bt.T, pr)
		return VT{vc.wrap(pr, bits, signed)}
	case token.QUO, token.REM:
		if f.safety() {
			f.oblige(st, "div", x.Name(), "divisor is not zero", x.Pos(), B.Ne(bt.T, B.Int(0)), nil)
		}
		if !signed {
			if x.Op == token.QUO {
				return VT{B.Div(at.T, bt.T)}
			}
			return VT{B.Mod(at.T, bt.T)}
		}
		// truncated division
		absA := B.Ite(B.Lt(at.T, B.Int(0)), B.Neg(at.T), at.T)
		absB := B.Ite(B.Lt(bt.T, B.Int(0)), B.Neg(bt.T), bt.T)
		q := B.Div(absA, absB)
		neg := B.Ne(B.Lt(at.T, B.Int(0)), B.Lt(bt.T, B.Int(0)))
		if x.Op == token.QUO {
			return VT{vc.wrap1(B.Ite(neg, B.Neg(q), q), bits, signed)}
		}
		r := B.Mod(absA, absB)
		return VT{B.Ite(B.Lt(at.T, B.Int(0)), B.Neg(r), r)}
	case token.SHL:
		if bt.T.IsConst() {
			s := bt.T.ival.Int64()
			if s >= int64(bits) {
				return VT{B.Int(0)}
			}
			return VT{vc.wrap(B.Mul(at.T, B.Big(pow2(uint(s)))), bits, signed)}
		}
		vc.pow2Fun()
		p := B.App("tbl_pow2", B.Ite(B.Gt(bt.T, B.Int(64)), B.Int(64), bt.T))
		m := vc.wrap(B.Mul(at.T, p), bits, signed)
		return VT{B.Ite(B.Ge(bt.T, B.Int(int64(bits))), B.Int(0), m)}
	case token.SHR:
		if bt.T.IsConst() {
			s := bt.T.ival.Int64()
			if s >= int64(bits) {
				if signed {
					return VT{B.Ite(B.Lt(at.T, B.Int(0)), B.Int(-1), B.Int(0))}
				}
				return VT{B.Int(0)}
			}
			return VT{B.Div(at.T, B.Big(pow2(uint(s))))}
		}
		vc.pow2Fun()
		p := B.App("tbl_pow2", B.Ite(B.Gt(bt.T, B.Int(64)), B.Int(64), bt.T))
		d := B.Div(at.T, p)
		var over *Term = B.Int(0)
		if signed {
			over = B.Ite(B.Lt(at.T, B.Int(0)), B.Int(-1), B.Int(0))
		}
		return VT{B.Ite(B.Ge(bt.T, B.Int(int64(bits))), over, d)}
	case token.AND, token.OR, token.XOR, token.AND_NOT:
		r := vc.bitop(x.Op, at.T, bt.T, bits, signed)
		if x.Op == token.AND && bits == 64 && !signed {
			f.swarFacts(st, x, r)
		}
		return VT{r}
	}
	return vc.freshValue(f.prefix+x.Name(), x.Type())
}

// bitop models bitwise operators on Int-sorted machine integers. Masks of the
// form 2^k-1 and single bits are exact; everything else is an uninterpreted
// function with sound bounds.
func (vc *VC) bitop(op token.Token, a, b *Term, bits uint, signed bool) *Term {
	B := vc.B
	if a.IsConst() && !b.IsConst() && op != token.AND_NOT {
		a, b = b, a
	}
	toU := func(t *Term) *Term {
		if !signed {
			return t
		}
		return B.Ite(B.Lt(t, B.Int(0)), B.Add(t, B.Big(pow2(bits))), t)
	}
	fromU := func(t *Term) *Term {
		if !signed {
			return t
		}
		return B.Ite(B.Ge(t, B.Big(pow2(bits-1))), B.Sub(t, B.Big(pow2(bits))), t)
	}
	if a.IsConst() && b.IsConst() {
		ua := new(big.Int).Mod(a.ival, pow2(bits))
		ub := new(big.Int).Mod(b.ival, pow2(bits))
		r := new(big.Int)
		switch op {
		case token.AND:
			r.And(ua, ub)
		case token.OR:
			r.Or(ua, ub)
		case token.XOR:
			r.Xor(ua, ub)
		case token.AND_NOT:
			r.AndNot(ua, ub)
		}
		return vc.wrap(B.Big(r), bits, signed)
	}
	if op == token.AND && b.IsConst() {
		ub := new(big.Int).Mod(b.ival, pow2(bits))
		// low mask 2^k - 1
		k := ub.BitLen()
		if new(big.Int).Add(ub, big.NewInt(1)).Cmp(pow2(uint(k))) == 0 {
			return fromU(B.Mod(toU(a), B.Big(pow2(uint(k)))))
		}
		// single bit 2^k
		if ub.Sign() > 0 && new(big.Int).And(ub, new(big.Int).Sub(ub, big.NewInt(1))).Sign() == 0 {
			sh := uint(ub.BitLen() - 1)
			bit := B.Mod(B.Div(toU(a), B.Big(pow2(sh))), B.Int(2))
			return fromU(B.Mul(B.Big(ub), bit))
		}
		// contiguous high mask: ~(2^k-1)
		inv := new(big.Int).Sub(new(big.Int).Sub(pow2(bits), big.NewInt(1)), ub)
		ki := inv.BitLen()
		if new(big.Int).Add(inv, big.NewInt(1)).Cmp(pow2(uint(ki))) == 0 {
			ua := toU(a)
			return fromU(B.Sub(ua, B.Mod(ua, B.Big(pow2(uint(ki))))))
		}
	}
	if op == token.AND_NOT && b.IsConst() {
		ub := new(big.Int).Mod(b.ival, pow2(bits))
		k := ub.BitLen()
		if new(big.Int).Add(ub, big.NewInt(1)).Cmp(pow2(uint(k))) == 0 {
			// x &^ (2^k-1): clear the low k bits
			ua := toU(a)
			return fromU(B.Sub(ua, B.Mod(ua, B.Big(pow2(uint(k))))))
		}
	}
	name := map[token.Token]string{token.AND: "band", token.OR: "bor", token.XOR: "bxor", token.AND_NOT: "bandnot"}[op]
	name = fmt.Sprintf("%s%d", name, bits)
	B.DefineFun(name, []Sort{SInt, SInt}, SInt, "", nil)
	ua, ub := toU(a), toU(b)
	r := B.App(name, ua, ub)
	full := B.Big(pow2(bits))
	switch op {
	case token.AND:
		vc.fact(B.And(B.Le(B.Int(0), r), B.Le(r, ua), B.Le(r, ub)))
		// x & (2^k-1) == x mod 2^k for symbolic masks of the widths that occur
		for _, k := range []uint{1, 8, 16, 32, 64} {
			if k <= bits {
				// x & (2^k-1) == x mod 2^k, stated without mod: x = 2^k*q + r, 0 <= r < 2^k
				m := B.Big(new(big.Int).Sub(pow2(k), big.NewInt(1)))
				q1 := B.Fresh("bq", SInt)
				q2 := B.Fresh("bq", SInt)
				vc.fact(B.Implies(B.Eq(ub, m), B.And(B.Eq(ua, B.Add(B.Mul(B.Big(pow2(k)), q1), r)), B.Le(B.Int(0), q1))))
				vc.fact(B.Implies(B.Eq(ua, m), B.And(B.Eq(ub, B.Add(B.Mul(B.Big(pow2(k)), q2), r)), B.Le(B.Int(0), q2))))
			}
		}
		vc.fact(B.Implies(B.Eq(ub, B.Int(0)), B.Eq(r, B.Int(0))))
		vc.fact(B.Implies(B.Eq(ua, B.Int(0)), B.Eq(r, B.Int(0))))
		if bits <= 16 {
			// narrow operands: the result bit by bit
			for i := uint(0); i < bits; i++ {
				bit := func(t *Term) *Term { return B.Eq(B.Mod(B.Div(t, B.Big(pow2(i))), B.Int(2)), B.Int(1)) }
				vc.fact(B.Eq(bit(r), B.And(bit(ua), bit(ub))))
			}
		}
		vc.fact(B.Implies(B.Eq(ub, B.Sub(full, B.Int(1))), B.Eq(r, ua)))
		vc.fact(B.Implies(B.Eq(ua, B.Sub(full, B.Int(1))), B.Eq(r, ub)))
	case token.OR:
		allOnes := B.Sub(full, B.Int(1))
		vc.fact(B.Implies(B.Eq(ub, allOnes), B.Eq(r, allOnes)))
		vc.fact(B.Implies(B.Eq(ua, allOnes), B.Eq(r, allOnes)))
		vc.fact(B.And(B.Le(ua, r), B.Le(ub, r), B.Lt(r, full), B.Le(r, B.Add(ua, ub))))
		vc.fact(B.Implies(B.Eq(ub, B.Int(0)), B.Eq(r, ua)))
		vc.fact(B.Implies(B.Eq(ua, B.Int(0)), B.Eq(r, ub)))
	case token.XOR:
		vc.fact(B.And(B.Le(B.Int(0), r), B.Lt(r, full), B.Le(r, B.Add(ua, ub))))
		vc.fact(B.Implies(B.Eq(ub, B.Int(0)), B.Eq(r, ua)))
		vc.fact(B.Eq(B.Eq(r, B.Int(0)), B.Eq(ua, ub)))
	case token.AND_NOT:
		vc.fact(B.And(B.Le(B.Int(0), r), B.Le(r, ua)))
		vc.fact(B.Implies(B.Eq(ub, B.Int(0)), B.Eq(r, ua)))
		vc.fact(B.Implies(B.Eq(ub, B.Sub(full, B.Int(1))), B.Eq(r, B.Int(0))))
	}
	vc.note("bitwise %s on symbolic operands abstracted by an uninterpreted function with sound bounds", name)
	return fromU(r)
}

func (f *Frame) valuesEqual(st *State, a, b Value, t types.Type) *Term {
	B := f.vc.B
	switch x := a.(type) {
	case VT:
		switch y := b.(type) {
		case VT:
			if x.T.sort != y.T.sort {
				return nil
			}
			if isFloat(t) {
				return nil
			}
			return B.Eq(x.T, y.T)
		case VPtr:
			if y.Cell != nil {
				// a live cell address is never nil and never equals an unrelated address we know
				if x.T.IsConst() {
					return B.False()
				}
				return nil
			}
			return B.Eq(x.T, y.Addr)
		}
	case VPtr:
		switch y := b.(type) {
		case VT:
			return f.valuesEqual(st, b, a, t)
		case VPtr:
			if x.Cell != nil && y.Cell != nil {
				if x.Cell != y.Cell {
					return B.False()
				}
				if x.Dyn == nil && y.Dyn == nil {
					return B.Bool(x.Off == y.Off)
				}
				return nil
			}
			if x.Cell == nil && y.Cell == nil {
				return B.Eq(x.Addr, y.Addr)
			}
			return B.False()
		}
	case VIface:
		if y, ok := b.(VIface); ok {
			// comparison with nil interface: both words zero <=> type word zero
			if y.Typ.IsConst() && y.Typ.ival.Sign() == 0 {
				return B.Eq(x.Typ, B.Int(0))
			}
			if x.Typ.IsConst() && x.Typ.ival.Sign() == 0 {
				return B.Eq(y.Typ, B.Int(0))
			}
			return nil
		}
	case VSlice:
		if y, ok := b.(VSlice); ok {
			// only comparison with nil is legal
			if y.Ptr.IsConst() {
				return B.Eq(x.Ptr, B.Int(0))
			}
			return B.Eq(y.Ptr, B.Int(0))
		}
	case VString:
		if y, ok := b.(VString); ok {
			return f.stringEq(st, x, y)
		}
	case VTuple:
		if y, ok := b.(VTuple); ok && len(x.Elems) == len(y.Elems) {
			var cs []*Term
			s, _ := t.Underlying().(*types.Struct)
			for i := range x.Elems {
				var et types.Type = types.Typ[types.Int]
				if s != nil {
					et = s.Field(i).Type()
				}
				c := f.valuesEqual(st, x.Elems[i], y.Elems[i], et)
				if c == nil {
					return nil
				}
				cs = append(cs, c)
			}
			return B.And(cs...)
		}
	}
	return nil
}

func (f *Frame) stringEq(st *State, x, y VString) *Term {
	B := f.vc.B
	if x.Len.IsConst() && y.Len.IsConst() {
		if x.Len.ival.Cmp(y.Len.ival) != 0 {
			return B.False()
		}
		if x.Len.ival.Sign() == 0 {
			return B.True()
		}
	}
	// constant on one side: compare bytes
	for s, p := range f.vc.strConsts {
		var other VString
		if p == y.Ptr {
			other = x
		} else if p == x.Ptr {
			other = y
		} else {
			continue
		}
		if len(s) > 32 {
			break
		}
		cs := []*Term{B.Eq(other.Len, B.Int(int64(len(s))))}
		for i := 0; i < len(s); i++ {
			cs = append(cs, B.Eq(f.vc.readM(st, B.Add(other.Ptr, B.Int(int64(i))), 1, false), B.Int(int64(s[i]))))
		}
		return B.And(cs...)
	}
	if x.Len.IsConst() && x.Len.ival.Sign() == 0 {
		return B.Eq(y.Len, B.Int(0))
	}
	if y.Len.IsConst() && y.Len.ival.Sign() == 0 {
		return B.Eq(x.Len, B.Int(0))
	}
	return nil
}

func (f *Frame) execConvert(st *State, x *ssa.Convert) Value {
	vc := f.vc
	B := vc.B
	v := f.lookup(st, x.X)
	from, to := x.X.Type(), x.Type()
	fb, fIsInt := intLike(from)
	tb, tIsInt := intLike(to)
	_, _ = fb, tb
	switch {
	case isPtrType(from) && isUnsafePtr(to), isUnsafePtr(from) && isPtrType(to), isUnsafePtr(from) && isUnsafePtr(to):
		switch p := v.(type) {
		case VPtr:
			if p.Cell != nil {
				return p
			}
			r := VPtr{Addr: p.Addr, Key: "", Raw: true, Orig: p.Orig, OrigT: p.OrigT}
			if p.Key != "" && isPtrType(from) {
				switch from.Underlying().(*types.Pointer).Elem().Underlying().(type) {
				case *types.Slice:
					r.Orig, r.OrigT = p.Key, from.Underlying().(*types.Pointer).Elem()
				}
			}
			return r
		case VT:
			return v
		}
		return v
	case isUnsafePtr(from) && isUintptr(to), isUintptr(from) && isUnsafePtr(to):
		switch p := v.(type) {
		case VPtr:
			if p.Cell != nil {
				vc.note("address of local cell converted to uintptr; havocked")
				return vc.freshValue(f.prefix+x.Name(), to)
			}
			return VT{p.Addr}
		}
		return v
	case fIsInt && tIsInt:
		t := v.(VT).T
		fbits, fsigned, _ := intInfo(from)
		tbits, tsigned, _ := intInfo(to)
		if tbits > fbits && (!fsigned || tsigned) {
			return VT{t}
		}
		if tbits == fbits && fsigned == tsigned {
			return VT{t}
		}
		if !fsigned && tsigned && tbits > fbits {
			return VT{t}
		}
		if tbits == fbits && !t.IsConst() {
			// same width, different signedness: one correction, no mod
			full := B.Big(pow2(tbits))
			if tsigned {
				return VT{B.Ite(B.Ge(t, B.Big(pow2(tbits-1))), B.Sub(t, full), t)}
			}
			return VT{B.Ite(B.Lt(t, B.Int(0)), B.Add(t, full), t)}
		}
		if tbits > fbits && fsigned && !tsigned && !t.IsConst() {
			// sign-extend then reinterpret
			return VT{B.Ite(B.Lt(t, B.Int(0)), B.Add(t, B.Big(pow2(tbits))), t)}
		}
		return VT{vc.narrow(t, tbits, tsigned)}
	case isFloat(from) && isFloat(to):
		vc.ensureFloatFuns()
		t := v.(VT).T
		fs, ts := sizeOf(from), sizeOf(to)
		if fs == ts {
			return v
		}
		var r *Term
		if fs == 4 {
			r = B.App("f_32to64", t)
		} else {
			r = B.App("f_64to32", t)
			// narrowing may overflow to infinity but preserves NaN; only NaN/Inf-ness facts we rely on:
		}
		vc.fact(B.Eq(B.App("f_isnan", r), B.App("f_isnan", t)))
		if fs == 4 {
			vc.fact(B.Eq(B.App("f_isinf", r), B.App("f_isinf", t)))
		} else {
			vc.fact(B.Implies(B.App("f_isinf", t), B.App("f_isinf", r)))
		}
		return VT{r}
	case fIsInt && isString(to):
		// string(rune): 1 to 4 bytes of UTF-8 in a fresh string
		n := B.Fresh(f.prefix+x.Name()+".len", SInt)
		p := B.Fresh(f.prefix+x.Name()+".ptr", SInt)
		vc.fact(B.And(B.Le(B.Int(1), n), B.Le(n, B.Int(4)), B.Lt(B.Int(0), p), B.Le(B.Add(p, n), B.Big(maxAddr))))
		vc.freshRegion(st, p, n)
		return VString{p, n}
	case isString(from) && isByteSlice(to), isByteSlice(from) && isString(to):
		// fresh copy
		var n *Term
		switch s := v.(type) {
		case VString:
			n = s.Len
		case VSlice:
			n = s.Len
		default:
			return vc.freshValue(f.prefix+x.Name(), to)
		}
		p := B.Fresh(f.prefix+x.Name()+".ptr", SInt)
		vc.fact(B.And(B.Le(B.Int(0), p), B.Le(B.Add(p, n), B.Big(maxAddr)), B.Implies(B.Gt(n, B.Int(0)), B.Gt(p, B.Int(0)))))
		vc.freshRegion(st, p, n)
		copied := false
		if sv, ok := v.(VString); ok && n.IsConst() && n.ival.IsInt64() && n.ival.Int64() <= 32 && isByteSlice(to) {
			// []byte("literal"): the copy's contents are the constant's bytes
			M := vc.heapGet(st, "M")
			all := true
			for i := int64(0); i < n.ival.Int64(); i++ {
				b := vc.constByte(B.Add(sv.Ptr, B.Int(i)))
				if b == nil {
					all = false
					break
				}
				M = B.Store(M, B.Add(p, B.Int(i)), b)
			}
			if all {
				vc.heapSet(st, "M", M)
				copied = true
			}
		}
		if !copied {
			vc.note("string<->[]byte conversion content copy is opaque")
		}
		if isString(to) {
			return VString{p, n}
		}
		return VSlice{p, n, n}
	}
	return vc.freshValue(f.prefix+x.Name(), to)
}

func (vc *VC) narrow(t *Term, bits uint, signed bool) *Term {
	B := vc.B
	if t.IsConst() {
		return vc.wrap(t, bits, signed)
	}
	full := B.Big(pow2(bits))
	if !signed {
		return B.Mod(t, full)
	}
	half := B.Big(pow2(bits - 1))
	return B.Sub(B.Mod(B.Add(t, half), full), half)
}

func intLike(t types.Type) (*types.Basic, bool) {
	b, ok := t.Underlying().(*types.Basic)
	if !ok {
		return nil, false
	}
	return b, b.Info()&types.IsInteger != 0
}
func isPtrType(t types.Type) bool   { _, ok := t.Underlying().(*types.Pointer); return ok }
func isUnsafePtr(t types.Type) bool { b, ok := t.Underlying().(*types.Basic); return ok && b.Kind() == types.UnsafePointer }
func isUintptr(t types.Type) bool   { b, ok := t.Underlying().(*types.Basic); return ok && b.Kind() == types.Uintptr }
func isByteSlice(t types.Type) bool {
	s, ok := t.Underlying().(*types.Slice)
	if !ok {
		return false
	}
	b, ok := s.Elem().Underlying().(*types.Basic)
	return ok && (b.Kind() == types.Uint8 || b.Kind() == types.Int32)
}

func (f *Frame) execMakeInterface(st *State, x *ssa.MakeInterface) Value {
	vc := f.vc
	B := vc.B
	v := f.lookup(st, x.X)
	id := B.Int(int64(vc.typeID(typeKey(x.X.Type()))))
	switch p := v.(type) {
	case VT:
		if isPointerLike(x.X.Type()) {
			return VIface{id, p.T}
		}
	case VPtr:
		if p.Cell == nil {
			return VIface{id, p.Addr}
		}
	}
	// boxed value: data word is a fresh non-nil box
	d := B.Fresh(f.prefix+x.Name()+".box", SInt)
	vc.fact(B.And(B.Lt(B.Int(0), d), B.Lt(d, B.Big(maxAddr))))
	return VIface{id, d}
}

func (f *Frame) execTypeAssert(st *State, x *ssa.TypeAssert) Value {
	vc := f.vc
	B := vc.B
	v, ok := f.lookup(st, x.X).(VIface)
	if !ok {
		return nil
	}
	if _, isIface := x.AssertedType.Underlying().(*types.Interface); isIface {
		res := vc.freshValue(f.prefix+x.Name(), x.AssertedType)
		okT := B.Fresh(f.prefix+x.Name()+".ok", SBool)
		vc.fact(B.Implies(okT, B.Ne(v.Typ, B.Int(0))))
		if x.CommaOk {
			return VTuple{[]Value{res, VT{okT}}}
		}
		if f.safety() {
			f.oblige(st, "typeassert", x.Name(), "type assertion without comma-ok cannot fail", x.Pos(), B.False(), nil)
		}
		return res
	}
	id := B.Int(int64(vc.typeID(typeKey(x.AssertedType))))
	okT := B.Eq(v.Typ, id)
	var res Value
	if isPointerLike(x.AssertedType) {
		res = VT{v.Data}
	} else {
		res = vc.freshValue(f.prefix+x.Name(), x.AssertedType)
	}
	if x.CommaOk {
		return VTuple{[]Value{res, VT{okT}}}
	}
	if f.safety() {
		f.oblige(st, "typeassert", x.Name(), "type assertion without comma-ok cannot fail", x.Pos(), okT, nil)
	}
	return res
}

func (f *Frame) execFieldAddr(st *State, x *ssa.FieldAddr) Value {
	vc := f.vc
	B := vc.B
	base := f.lookup(st, x.X)
	pt := x.X.Type().Underlying().(*types.Pointer).Elem()
	s := pt.Underlying().(*types.Struct)
	off := fieldOffsets(s)[x.Field]
	ft := s.Field(x.Field).Type()
	key := fieldKey(pt, x.Field)
	switch ft.Underlying().(type) {
	case *types.Struct, *types.Array:
		key = ""
	}
	switch p := base.(type) {
	case VPtr:
		if p.Cell != nil {
			return VPtr{Cell: p.Cell, Off: p.Off + off, Dyn: p.Dyn}
		}
		if p.Orig != "" && p.Key == "" && sizeOf(ft) == 8 && s.NumFields() == 3 && sizeOf(pt) == 24 {
			// header view of a slice-typed field: word 0, 1, 2 are the field's pointer, length, capacity
			if _, isSlice := p.OrigT.Underlying().(*types.Slice); isSlice {
				suffix := map[int64]string{0: ".ptr", 8: ".len", 16: ".cap"}[off]
				if suffix != "" {
					return VPtr{Addr: p.Addr, Key: p.Orig + suffix}
				}
			}
		}
		return VPtr{Addr: B.Add(p.Addr, B.Int(off)), Key: key, Raw: p.Raw}
	case VT:
		raw := isRawPointer(x.X, 0)
		if !raw {
			f.nilCheck(st, p.T, x.X.Name(), x.Pos())
		}
		return VPtr{Addr: B.Add(p.T, B.Int(off)), Key: key, Raw: raw}
	}
	return nil
}

func (f *Frame) indexObl(st *State, idx, n *Term, what string, pos token.Pos) {
	if !f.safety() {
		return
	}
	B := f.vc.B
	f.oblige(st, "index", what, "index in range: 0 <= "+what, pos, B.And(B.Le(B.Int(0), idx), B.Lt(idx, n)), nil)
}

func (f *Frame) execIndexAddr(st *State, x *ssa.IndexAddr) Value {
	vc := f.vc
	B := vc.B
	base := f.lookup(st, x.X)
	idx := f.lookup(st, x.Index).(VT).T
	what := x.X.Name() + "[" + x.Index.Name() + "]"
	switch xt := x.X.Type().Underlying().(type) {
	case *types.Slice:
		s, ok := base.(VSlice)
		if !ok {
			return nil
		}
		f.indexObl(st, idx, s.Len, what, x.Pos())
		es := sizeOf(xt.Elem())
		return VPtr{Addr: B.Add(s.Ptr, B.Mul(B.Int(es), idx)), Key: ""}
	case *types.Pointer:
		arr := xt.Elem().Underlying().(*types.Array)
		f.indexObl(st, idx, B.Int(arr.Len()), what, x.Pos())
		es := sizeOf(arr.Elem())
		switch p := base.(type) {
		case VPtr:
			if p.Cell != nil {
				if cellGlobal[p.Cell] != nil && p.Off == 0 && p.Dyn == nil && p.Idx == nil {
					return VPtr{Cell: p.Cell, Idx: idx}
				}
				if idx.IsConst() {
					return VPtr{Cell: p.Cell, Off: p.Off + es*idx.ival.Int64(), Dyn: p.Dyn}
				}
				d := B.Mul(B.Int(es), idx)
				if p.Dyn != nil {
					d = B.Add(p.Dyn, d)
				}
				return VPtr{Cell: p.Cell, Off: p.Off, Dyn: d}
			}
			return VPtr{Addr: B.Add(p.Addr, B.Mul(B.Int(es), idx)), Key: "", Raw: p.Raw}
		case VT:
			if !isRawPointer(x.X, 0) {
				f.nilCheck(st, p.T, x.X.Name(), x.Pos())
			}
			return VPtr{Addr: B.Add(p.T, B.Mul(B.Int(es), idx)), Key: "", Raw: isRawPointer(x.X, 0)}
		}
	}
	return nil
}

func (f *Frame) execIndex(st *State, x *ssa.Index) Value {
	vc := f.vc
	B := vc.B
	base := f.lookup(st, x.X)
	idx := f.lookup(st, x.Index).(VT).T
	what := x.X.Name() + "[" + x.Index.Name() + "]"
	switch xt := x.X.Type().Underlying().(type) {
	case *types.Array:
		f.indexObl(st, idx, B.Int(xt.Len()), what, x.Pos())
		if tu, ok := base.(VTuple); ok {
			if idx.IsConst() {
				i := idx.ival.Int64()
				if i >= 0 && int(i) < len(tu.Elems) {
					return tu.Elems[i]
				}
				return nil
			}
			if len(tu.Elems) > 0 {
				acc := tu.Elems[len(tu.Elems)-1]
				for i := len(tu.Elems) - 2; i >= 0; i-- {
					m := vc.mergeValue(B.Eq(idx, B.Int(int64(i))), tu.Elems[i], acc)
					if m == nil {
						return nil
					}
					acc = m
				}
				return acc
			}
		}
	case *types.Basic: // string
		if s, ok := base.(VString); ok {
			f.indexObl(st, idx, s.Len, what, x.Pos())
			if t := vc.constStringAt(s.Ptr, idx); t != nil {
				return VT{t}
			}
			return VT{vc.readM(st, B.Add(s.Ptr, idx), 1, false)}
		}
	}
	return nil
}

func (f *Frame) execLookup(st *State, x *ssa.Lookup) Value {
	vc := f.vc
	B := vc.B
	if isString(x.X.Type()) {
		s, ok := f.lookup(st, x.X).(VString)
		if !ok {
			return nil
		}
		idx := f.lookup(st, x.Index).(VT).T
		f.indexObl(st, idx, s.Len, x.X.Name()+"["+x.Index.Name()+"]", x.Pos())
		if t := vc.constStringAt(s.Ptr, idx); t != nil {
			return VT{t}
		}
		return VT{vc.readM(st, B.Add(s.Ptr, idx), 1, false)}
	}
	vc.note("map lookup is opaque")
	return vc.freshValue(f.prefix+x.Name(), x.Type())
}

func (f *Frame) execSlice(st *State, x *ssa.Slice) Value {
	vc := f.vc
	B := vc.B
	base := f.lookup(st, x.X)
	get := func(v ssa.Value) *Term {
		if v == nil {
			return nil
		}
		return f.lookup(st, v).(VT).T
	}
	lo, hi, max := get(x.Low), get(x.High), get(x.Max)
	if lo == nil {
		lo = B.Int(0)
	}
	what := x.X.Name()
	switch xt := x.X.Type().Underlying().(type) {
	case *types.Slice:
		s, ok := base.(VSlice)
		if !ok {
			return nil
		}
		if hi == nil {
			hi = s.Len
		}
		capB := s.Cap
		if max != nil {
			capB = max
		}
		if f.safety() {
			g := B.And(B.Le(B.Int(0), lo), B.Le(lo, hi), B.Le(hi, capB))
			if max != nil {
				g = B.And(g, B.Le(max, s.Cap))
			}
			f.oblige(st, "slice", what, "slice bounds in range for "+what, x.Pos(), g, nil)
		}
		es := sizeOf(xt.Elem())
		return VSlice{B.Add(s.Ptr, B.Mul(B.Int(es), lo)), B.Sub(hi, lo), B.Sub(capB, lo)}
	case *types.Basic:
		s, ok := base.(VString)
		if !ok {
			return nil
		}
		if hi == nil {
			hi = s.Len
		}
		if f.safety() {
			f.oblige(st, "slice", what, "string slice bounds in range for "+what, x.Pos(), B.And(B.Le(B.Int(0), lo), B.Le(lo, hi), B.Le(hi, s.Len)), nil)
		}
		return VString{B.Add(s.Ptr, lo), B.Sub(hi, lo)}
	case *types.Pointer:
		arr := xt.Elem().Underlying().(*types.Array)
		n := B.Int(arr.Len())
		if hi == nil {
			hi = n
		}
		if f.safety() {
			f.oblige(st, "slice", what, "array slice bounds in range for "+what, x.Pos(), B.And(B.Le(B.Int(0), lo), B.Le(lo, hi), B.Le(hi, n)), nil)
		}
		es := sizeOf(arr.Elem())
		var addr *Term
		switch p := base.(type) {
		case VT:
			addr = p.T
		case VPtr:
			if p.Cell != nil {
				// slicing a local array: materialise the cell bytes at a fresh address
				addr = f.materializeCell(st, p)
				if addr == nil {
					return nil
				}
			} else {
				addr = p.Addr
			}
		}
		return VSlice{B.Add(addr, B.Mul(B.Int(es), lo)), B.Sub(hi, lo), B.Sub(n, lo)}
	}
	return nil
}

// materializeCell copies a byte cell into the byte heap at a fresh address so
// that a slice of it can be formed (append(out, b[i:]...) idiom). The cell must
// not be written afterwards through the cell pointer for this to stay exact;
// a later cell store after materialisation is reported as a note.
func (f *Frame) materializeCell(st *State, p VPtr) *Term {
	vc := f.vc
	B := vc.B
	c := p.Cell
	if !c.Bytes || p.Dyn != nil {
		vc.note("slice of non-byte cell unsupported; havocked")
		return nil
	}
	arr, ok := st.cells[c.ID+"#"].(VT)
	if !ok {
		return nil
	}
	a := B.Fresh(c.ID+"_mat", SInt)
	vc.fact(B.And(B.Lt(B.Int(0), a), B.Le(B.Add(a, B.Int(c.Size)), B.Big(maxAddr))))
	vc.freshRegion(st, a, B.Int(c.Size))
	M := vc.heapGet(st, "M")
	for i := int64(0); i < c.Size; i++ {
		M = B.Store(M, B.Add(a, B.Int(i)), B.Select(arr.T, B.Int(i)))
	}
	vc.heapSet(st, "M", M)
	return B.Add(a, B.Int(p.Off))
}

func (f *Frame) execMakeSlice(st *State, x *ssa.MakeSlice) Value {
	vc := f.vc
	B := vc.B
	n := f.lookup(st, x.Len).(VT).T
	c := f.lookup(st, x.Cap).(VT).T
	es := sizeOf(x.Type().Underlying().(*types.Slice).Elem())
	if f.safety() {
		f.oblige(st, "makeslice", x.Name(), "make: 0 <= len <= cap", x.Pos(), B.And(B.Le(B.Int(0), n), B.Le(n, c)), nil)
	}
	p := B.Fresh(f.prefix+x.Name()+".ptr", SInt)
	size := B.Mul(B.Int(es), c)
	vc.fact(B.And(B.Lt(B.Int(0), p), B.Le(B.Add(p, size), B.Big(maxAddr))))
	vc.freshRegion(st, p, size)
	// zero-filled: only stated for the byte heap
	if es == 1 {
		M := vc.heapGet(st, "M")
		k := B.BVar("z", SInt)
		M2 := B.Fresh(f.prefix+x.Name()+".M", SArrII)
		vc.fact(B.Forall([]*Term{k}, B.Eq(B.Select(M2, k), B.Ite(B.And(B.Le(p, k), B.Lt(k, B.Add(p, size))), B.Int(0), B.Select(M, k)))))
		vc.heapSet(st, "M", M2)
	} else {
		// zero-filled elements of other types: every leaf class reads 0 inside the new array
		et := x.Type().Underlying().(*types.Slice).Elem()
		classes := map[string]bool{}
		storeClasses("", et, classes)
		for cls := range classes {
			if cls == "M" || cls == "*" || vc.heapSort(cls) != SArrII {
				continue
			}
			H := vc.heapGet(st, cls)
			H2 := B.Fresh(f.prefix+x.Name()+".z", SArrII)
			k := B.BVar("z", SInt)
			vc.fact(B.Forall([]*Term{k}, B.Eq(B.Select(H2, k), B.Ite(B.And(B.Le(p, k), B.Lt(k, B.Add(p, size))), B.Int(0), B.Select(H, k)))))
			vc.heapSet(st, cls, H2)
		}
	}
	return VSlice{p, n, c}
}

func (f *Frame) execStore(st *State, x *ssa.Store) {
	vc := f.vc
	pv := f.lookup(st, x.Addr)
	val := f.lookup(st, x.Val)
	t := x.Val.Type()
	switch p := pv.(type) {
	case VPtr:
		if p.Cell != nil {
			vc.cellStore(st, p, t, val)
			return
		}
		if p.Raw {
			f.rawAccess(st, p.Addr, sizeOf(t), true, x.Pos(), x.Addr.Name())
		}
		f.checkAssigns(st, p.Addr, p.Key, t, x.Pos())
		vc.storeTyped(st, p.Addr, p.Key, t, val)
	case VT:
		if isRawPointer(x.Addr, 0) {
			f.rawAccess(st, p.T, sizeOf(t), true, x.Pos(), x.Addr.Name())
		} else {
			f.nilCheck(st, p.T, x.Addr.Name(), x.Pos())
		}
		f.checkAssigns(st, p.T, "", t, x.Pos())
		vc.storeTyped(st, p.T, "", t, val)
	default:
		vc.havocAll(st, "store through unsupported pointer in "+f.fn.Name())
	}
}
