package main

import (
	"context"
	"encoding/json"
	"fmt"
	"os"
	"os/exec"
	"path/filepath"
	"strings"
	"time"
)

// Replay of a solver model against the real code: an in-package test is
// injected with `go test -overlay` (nothing is written to /repo). Templates
// live in /verif/replay; index.json maps a function under contract to the
// package directory and the template that evaluates the property-level effect.

type replayEntry struct {
	Pkg      string `json:"pkg"`      // directory below /repo
	Template string `json:"template"` // file in /verif/replay
	Flags    string `json:"flags,omitempty"`
}

func loadReplayIndex() map[string]replayEntry {
	idx := map[string]replayEntry{}
	data, err := os.ReadFile("/verif/replay/index.json")
	if err != nil {
		return idx
	}
	json.Unmarshal(data, &idx)
	return idx
}

func replayOnRealCode(e *Engine, o *Obligation) (string, bool, string) {
	idx := loadReplayIndex()
	ent, ok := idx[o.Func]
	if !ok {
		return "no replay template for " + o.Func, false, ""
	}
	tmpl, err := os.ReadFile(filepath.Join("/verif/replay", ent.Template))
	if err != nil {
		return err.Error(), false, ""
	}
	prelude, _ := os.ReadFile("/verif/replay/prelude.go.txt")
	dir, err := os.MkdirTemp(workDir, "replay")
	if err != nil {
		return err.Error(), false, ""
	}
	defer os.RemoveAll(dir)
	model := map[string]interface{}{"obligation": o.Name, "kind": o.Kind, "function": o.Func, "values": o.Res.Model}
	mdata, _ := json.Marshal(model)
	mpath := filepath.Join(dir, "model.json")
	os.WriteFile(mpath, mdata, 0o644)
	src := string(tmpl)
	if i := strings.Index(src, "//PRELUDE"); i >= 0 {
		src = strings.Replace(src, "//PRELUDE", string(prelude), 1)
	}
	tpath := filepath.Join(dir, "zz_govc_replay_test.go")
	os.WriteFile(tpath, []byte(src), 0o644)
	ov := map[string]interface{}{"Replace": map[string]string{filepath.Join(repoDir, ent.Pkg, "zz_govc_replay_test.go"): tpath}}
	odata, _ := json.Marshal(ov)
	opath := filepath.Join(dir, "overlay.json")
	os.WriteFile(opath, odata, 0o644)
	args := []string{"test", "-overlay", opath, "-vet=off", "-count=1", "-timeout", "60s", "-run", "TestGovcReplay", "-v"}
	if ent.Flags != "" {
		args = append(args, strings.Fields(ent.Flags)...)
	}
	args = append(args, "./"+ent.Pkg)
	ctx, cancel := context.WithTimeout(context.Background(), 180*time.Second)
	defer cancel()
	cmd := exec.CommandContext(ctx, "go", args...)
	cmd.Dir = repoDir
	cmd.Env = append(os.Environ(), "GOFLAGS=-mod=mod", "GOPROXY=off", "GOSUMDB=off", "GOTOOLCHAIN=local", "GOVC_MODEL="+mpath)
	out, _ := cmd.CombinedOutput()
	text := string(out)
	confirmed := strings.Contains(text, "REPLAY-CONFIRMED")
	var keep []string
	for _, l := range strings.Split(text, "\n") {
		if strings.Contains(l, "REPLAY-") || strings.Contains(l, "panic") || strings.Contains(l, "fatal error") || strings.Contains(l, "checkptr") {
			keep = append(keep, strings.TrimSpace(l))
		}
	}
	if len(keep) == 0 {
		keep = append(keep, firstLines(text, 6))
	}
	if !confirmed && (strings.Contains(text, "panic:") || strings.Contains(text, "fatal error:")) && strings.Contains(text, "REPLAY-EXPECT-CRASH") {
		confirmed = true
	}
	return strings.Join(keep, "\n"), confirmed, fmt.Sprintf("GOVC_MODEL=<model.json> go %s", strings.Join(args, " "))
}

func cmdReplay(args []string) int {
	if len(args) < 1 {
		fmt.Fprintln(os.Stderr, "usage: govc replay <replay.json>")
		return 2
	}
	data, err := os.ReadFile(args[0])
	if err != nil {
		fmt.Fprintln(os.Stderr, err)
		return 2
	}
	var rp struct {
		Property   string            `json:"property"`
		Obligation string            `json:"obligation"`
		Function   string            `json:"function"`
		Kind       string            `json:"kind"`
		Model      map[string]string `json:"model"`
		Verdict    string            `json:"verdict"`
	}
	if err := json.Unmarshal(data, &rp); err != nil {
		fmt.Fprintln(os.Stderr, err)
		return 2
	}
	fmt.Printf("obligation: %s\nverdict: %s\n", rp.Obligation, rp.Verdict)
	if len(rp.Model) == 0 {
		fmt.Println("no model recorded (no-failing-input-found)")
		return 1
	}
	initWorkDir()
	defer cleanupWorkDir()
	o := &Obligation{Name: rp.Obligation, Func: rp.Function, Kind: rp.Kind}
	o.Res.Model = rp.Model
	out, confirmed, cmd := replayOnRealCode(nil, o)
	fmt.Println(cmd)
	fmt.Println(out)
	if confirmed {
		fmt.Printf("VIOLATION property=%s replay=%s\n", rp.Property, args[0])
		return 1
	}
	return 0
}

// runOverlayTest injects one test file into a package of /repo with -overlay and runs it.
func runOverlayTest(pkg, srcPath, testName string, env []string, timeoutSecs int) (string, bool) {
	src, err := os.ReadFile(srcPath)
	if err != nil {
		return err.Error(), false
	}
	dir, err := os.MkdirTemp(workDir, "ovl")
	if err != nil {
		return err.Error(), false
	}
	defer os.RemoveAll(dir)
	tpath := filepath.Join(dir, "zz_govc_overlay_test.go")
	os.WriteFile(tpath, src, 0o644)
	ov := map[string]interface{}{"Replace": map[string]string{filepath.Join(repoDir, pkg, "zz_govc_overlay_test.go"): tpath}}
	odata, _ := json.Marshal(ov)
	opath := filepath.Join(dir, "overlay.json")
	os.WriteFile(opath, odata, 0o644)
	ctx, cancel := context.WithTimeout(context.Background(), time.Duration(timeoutSecs)*time.Second)
	defer cancel()
	cmd := exec.CommandContext(ctx, "go", "test", "-overlay", opath, "-vet=off", "-count=1", "-timeout", fmt.Sprintf("%ds", timeoutSecs), "-run", testName+"$", "-v", "./"+pkg)
	cmd.Dir = repoDir
	cmd.Env = append(append(os.Environ(), "GOFLAGS=-mod=mod", "GOPROXY=off", "GOSUMDB=off", "GOTOOLCHAIN=local"), env...)
	out, err := cmd.CombinedOutput()
	text := string(out)
	ok := err == nil && strings.Contains(text, "BOUNDED-OK") && !strings.Contains(text, "BOUNDED-FAIL")
	return text, ok
}
