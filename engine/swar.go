package main

// Bit-trick islands (DESIGN.md 3.3). The string emitters test eight bytes at
// once: mask := n | (n - lsb*0x20) | ((n ^ lsb*'"') - lsb) | ...; (mask & msb)
// != 0 iff some byte needs escaping, and TrailingZeros64(mask&msb)/8 is the
// first such byte. The surrounding function is verified over Int; this file
//
//   (a) extracts the pure bitwise sub-DAG below `mask & msb` from the SSA of
//       the current tree and proves, as a quantifier-free bit-vector query on
//       that very DAG and on the real escape table,
//           m == 0  ==>  no byte of n is in the table
//           m != 0  ==>  J := tz(m)/8 <= 7 and no byte before J is in the table
//   (b) hands exactly these facts to the Int-mode proof at that SSA value.
//
// Changing a constant or an operator in the source changes (a).

import (
	"fmt"
	"go/constant"
	"go/token"
	"go/types"
	"math/big"
	"strings"

	"golang.org/x/tools/go/ssa"
)

const msbConst = "9259542123273814144" // 0x8080808080808080

type swarIsland struct {
	root  ssa.Value // the operand of "& msb"
	leaf  ssa.Value
	bv    string // SMT-LIB bit-vector term over variable n
	table string
}

// bvOfDAG renders the pure uint64 sub-DAG as a bit-vector term; exactly one non-constant leaf is allowed.
func bvOfDAG(v ssa.Value, leaf *ssa.Value, depth int) (string, bool) {
	if depth > 40 {
		return "", false
	}
	switch x := v.(type) {
	case *ssa.Const:
		if x.Value == nil || x.Value.Kind() != constant.Int {
			return "", false
		}
		bi, ok := new(big.Int).SetString(x.Value.ExactString(), 10)
		if !ok {
			return "", false
		}
		bi.Mod(bi, pow2(64))
		return fmt.Sprintf("#x%016x", bi), true
	case *ssa.BinOp:
		if b, _, ok := intInfo(x.Type()); !ok || b != 64 {
			break
		}
		op := map[token.Token]string{token.OR: "bvor", token.XOR: "bvxor", token.AND: "bvand", token.SUB: "bvsub", token.ADD: "bvadd", token.MUL: "bvmul", token.AND_NOT: "bvandnot"}[x.Op]
		if op == "" {
			break
		}
		a, ok1 := bvOfDAG(x.X, leaf, depth+1)
		b, ok2 := bvOfDAG(x.Y, leaf, depth+1)
		if !ok1 || !ok2 {
			return "", false
		}
		if op == "bvandnot" {
			return fmt.Sprintf("(bvand %s (bvnot %s))", a, b), true
		}
		return fmt.Sprintf("(%s %s %s)", op, a, b), true
	}
	// a leaf
	if b, signed, ok := intInfo(v.Type()); !ok || b != 64 || signed {
		return "", false
	}
	if *leaf == nil {
		*leaf = v
	}
	if *leaf != v {
		return "", false
	}
	return "n", true
}

// swarLemmaScript builds the bit-vector query for one island and one table.
func swarLemmaScript(maskBV string, table []*big.Int, ascii bool) string {
	var sb strings.Builder
	sb.WriteString("(set-logic QF_BV)\n(declare-const n (_ BitVec 64))\n")
	sb.WriteString("(define-fun tbl ((b (_ BitVec 8))) Bool (or false")
	for i, v := range table {
		if v.Sign() != 0 {
			fmt.Fprintf(&sb, " (= b #x%02x)", i)
		}
	}
	sb.WriteString("))\n")
	fmt.Fprintf(&sb, "(define-fun m () (_ BitVec 64) (bvand %s #x8080808080808080))\n", maskBV)
	// trailing zeros of m as an ite chain over all 64 bit positions
	sb.WriteString("(define-fun tz () (_ BitVec 64) ")
	for i := 0; i < 64; i++ {
		fmt.Fprintf(&sb, "(ite (= ((_ extract %d %d) m) #b1) #x%016x ", i, i, i)
	}
	sb.WriteString("#x0000000000000040")
	sb.WriteString(strings.Repeat(")", 64))
	sb.WriteString(")\n(define-fun J () (_ BitVec 64) (bvudiv tz #x0000000000000008))\n")
	var zero, nz []string
	for t := 0; t < 8; t++ {
		bt := fmt.Sprintf("((_ extract %d %d) n)", 8*t+7, 8*t)
		ok := fmt.Sprintf("(not (tbl %s))", bt)
		if ascii {
			// the mask also contains the word itself: a byte that passes is below 0x80 as well
			ok = fmt.Sprintf("(and (not (tbl %s)) (bvult %s #x80))", bt, bt)
		}
		zero = append(zero, ok)
		nz = append(nz, fmt.Sprintf("(=> (bvult #x%016x J) %s)", t, ok))
	}
	fmt.Fprintf(&sb, "(assert (not (and (=> (= m #x0000000000000000) (and %s)) (=> (not (= m #x0000000000000000)) (and (bvule J #x0000000000000007) %s)))))\n",
		strings.Join(zero, " "), strings.Join(nz, " "))
	sb.WriteString("(check-sat)\n")
	return sb.String()
}

// leBytes: if t is a little-endian sum of eight byte terms (as readM builds it), return them.
func leBytes(B *Builder, t *Term) []*Term {
	out := make([]*Term, 8)
	if t.op != "+" {
		return nil
	}
	for _, a := range t.args {
		var c *big.Int
		var x *Term
		switch {
		case a.op == "*" && a.args[0].IsConst():
			c, x = a.args[0].ival, a.args[1]
		case a.op == "select":
			c, x = big.NewInt(1), a
		default:
			return nil
		}
		found := false
		for i := 0; i < 8; i++ {
			if c.Cmp(pow2(uint(8*i))) == 0 {
				if out[i] != nil {
					return nil
				}
				out[i] = x
				found = true
			}
		}
		if !found {
			return nil
		}
	}
	for i := range out {
		if out[i] == nil {
			out[i] = B.Int(0)
		}
	}
	return out
}

// swarFacts is called for every uint64 `x & 0x8080808080808080`.
func (f *Frame) swarFacts(st *State, x *ssa.BinOp, res *Term) {
	vc := f.vc
	B := vc.B
	if f.c == nil || len(f.c.Swar) == 0 {
		return
	}
	var other ssa.Value
	if c, ok := x.Y.(*ssa.Const); ok && c.Value != nil && c.Value.ExactString() == msbConst {
		other = x.X
	} else if c, ok := x.X.(*ssa.Const); ok && c.Value != nil && c.Value.ExactString() == msbConst {
		other = x.Y
	} else {
		return
	}
	var leaf ssa.Value
	bv, ok := bvOfDAG(other, &leaf, 0)
	if !ok || leaf == nil {
		vc.note("swar: the expression below '& msb' at %s is not a pure bitwise DAG over one value; no facts", vc.P.SSA.Fset.Position(x.Pos()))
		return
	}
	tblName := f.c.Swar[0]
	ascii := len(f.c.Swar) > 1 && f.c.Swar[1] == "ascii" // "swar <table> ascii": passing bytes are also < 0x80
	sp := f.fn.Pkg
	g, _ := sp.Members[tblName].(*ssa.Global)
	var info *globalInfo
	if g != nil {
		info = theGlobals.info[g]
	}
	if info == nil || info.table == nil || !info.readOnly || info.ambiguous || len(info.table) != 256 {
		vc.note("swar: table %s is not a read-only constant [256]bool; no facts", tblName)
		return
	}
	// (a) the bit-vector lemma, once per distinct island of this function
	key := "swar:" + bv
	if ascii {
		key += ":ascii"
	}
	if !vc.swarDone[key] {
		vc.swarDone[key] = true
		o := &Obligation{Name: f.oblName("bvlemma", "swar:"+tblName), Kind: "bvlemma", Func: funcKey(f.fn),
			Text: fmt.Sprintf("bit-vector lemma on the mask expression at line %d: (mask&msb)==0 => no byte of the word is in %s; otherwise no byte before TrailingZeros64(mask&msb)/8 is", vc.P.SSA.Fset.Position(x.Pos()).Line, tblName),
			RawScript: swarLemmaScript(bv, info.table, ascii), vc: vc, Goal: B.True()}
		o.Pos = vc.P.SSA.Fset.Position(x.Pos()).String()
		vc.obls = append(vc.obls, o)
	}
	// (b) the same statement as Int-mode facts at this SSA value
	n := f.lookup(st, leaf).(VT).T
	bytes := leBytes(B, n)
	if bytes == nil {
		bytes = make([]*Term, 8)
		for i := range bytes {
			bytes[i] = B.Mod(B.Div(n, B.Big(pow2(uint(8*i)))), B.Int(256))
		}
	}
	tbl := func(b *Term) *Term {
		v, _ := vc.globalLoad(st, VPtr{Cell: vc.globalPtr(g).(VPtr).Cell}, types.Typ[types.Bool], b)
		return v.(VT).T
	}
	B.DefineFun("u_tz64", []Sort{SInt}, SInt, "", nil)
	J := B.Div(B.App("u_tz64", res), B.Int(8))
	var zero, nz []*Term
	for t := 0; t < 8; t++ {
		nt := B.Not(tbl(bytes[t]))
		if ascii {
			nt = B.And(nt, B.Lt(bytes[t], B.Int(128)))
		}
		zero = append(zero, nt)
		nz = append(nz, B.Implies(B.Lt(B.Int(int64(t)), J), nt))
	}
	vc.fact(B.Implies(B.Eq(res, B.Int(0)), B.And(zero...)))
	vc.fact(B.Implies(B.Ne(res, B.Int(0)), B.And(append([]*Term{B.Le(B.Int(0), J), B.Le(J, B.Int(7))}, nz...)...)))
	vc.note("bit-trick island: facts about (mask & msb) come from the bit-vector lemma proved on the extracted SSA expression and table %s", tblName)
}
