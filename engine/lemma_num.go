package main

// Lemma L-num (DESIGN.md C05): every number token the scanners let through
// and strconv.ParseFloat accepts is an RFC 8259 number.
//
//   code side   : first byte in {-,0..9} (proved postcondition numTok), every
//                 byte in floatTable (the REAL table, extracted from the source
//                 on every run), and ParseFloat returned nil
//   assumed spec: ParseFloat(s,64) == nil only if s is a Go decimal float
//                 literal  [+-]?(D+(.D*)?|.D+)([eE][+-]?D+)?   (bytes outside
//                 the decimal alphabet need letters that floatTable must not admit)
//   claim       : first . floatTable* /\ goFloat  is a subset of  jsonNumber
//
// Both sides are small DFAs; inclusion is decided exactly by exploring the
// product automaton (complete: the product has < 100 states). Each way the
// JSON automaton can die while the Go automaton still accepts is reported as
// its own obligation, keyed by the JSON state and input class, with the
// shortest witness literal as the model.

import (
	"fmt"
	"sort"

	"golang.org/x/tools/go/ssa"
)

const (
	clsZero = iota
	clsDigit
	clsDot
	clsExp
	clsPlus
	clsMinus
	nCls
)

var clsRep = []byte{'0', '1', '.', 'e', '+', '-'}
var clsName = []string{"0", "1-9", ".", "e|E", "+", "-"}

func classOf(c byte) int {
	switch {
	case c == '0':
		return clsZero
	case c >= '1' && c <= '9':
		return clsDigit
	case c == '.':
		return clsDot
	case c == 'e' || c == 'E':
		return clsExp
	case c == '+':
		return clsPlus
	case c == '-':
		return clsMinus
	}
	return -1
}

// Go decimal float syntax. States: 0 start, 1 sign, 2 int digits, 3 dot after int,
// 4 frac digits, 5 dot without int, 6 exp, 7 exp sign, 8 exp digits; -1 dead.
func goFloatStep(s, c int) int {
	d := c == clsZero || c == clsDigit
	switch s {
	case 0:
		switch {
		case c == clsPlus || c == clsMinus:
			return 1
		case d:
			return 2
		case c == clsDot:
			return 5
		}
	case 1:
		switch {
		case d:
			return 2
		case c == clsDot:
			return 5
		}
	case 2:
		switch {
		case d:
			return 2
		case c == clsDot:
			return 3
		case c == clsExp:
			return 6
		}
	case 3, 4:
		switch {
		case d:
			return 4
		case c == clsExp:
			return 6
		}
	case 5:
		if d {
			return 4
		}
	case 6:
		switch {
		case c == clsPlus || c == clsMinus:
			return 7
		case d:
			return 8
		}
	case 7, 8:
		if d {
			return 8
		}
	}
	return -1
}
func goFloatAccept(s int) bool { return s == 2 || s == 3 || s == 4 || s == 8 }

// RFC 8259 number. States: 0 start, 1 minus, 2 zero, 3 int digits, 4 dot, 5 frac,
// 6 exp, 7 exp sign, 8 exp digits; -1 dead.
var jsonStateName = []string{"start", "after '-'", "after leading 0", "in integer digits", "after '.'", "in fraction", "after e", "after exponent sign", "in exponent"}

func jsonStep(s, c int) int {
	d := c == clsZero || c == clsDigit
	switch s {
	case 0:
		switch c {
		case clsMinus:
			return 1
		case clsZero:
			return 2
		case clsDigit:
			return 3
		}
	case 1:
		switch c {
		case clsZero:
			return 2
		case clsDigit:
			return 3
		}
	case 2:
		switch c {
		case clsDot:
			return 4
		case clsExp:
			return 6
		}
	case 3:
		switch {
		case d:
			return 3
		case c == clsDot:
			return 4
		case c == clsExp:
			return 6
		}
	case 4:
		if d {
			return 5
		}
	case 5:
		switch {
		case d:
			return 5
		case c == clsExp:
			return 6
		}
	case 6:
		switch {
		case c == clsPlus || c == clsMinus:
			return 7
		case d:
			return 8
		}
	case 7, 8:
		if d {
			return 8
		}
	}
	return -1
}
func jsonAccept(s int) bool { return s == 2 || s == 3 || s == 5 || s == 8 }

type numLemmaSite struct {
	pkg, table, name string
	firstAny         bool // no restriction on the first byte (AppendNumber)
	noParseFloat     bool // the site does not call ParseFloat at all
}

// numLemma explores the product automaton for one scanner site.
func numLemma(e *Engine, site numLemmaSite) []*Obligation {
	base := site.name + "/L-num"
	mk := func(name, text, verdict, out string, model map[string]string) *Obligation {
		o := &Obligation{Name: name, Kind: "lemma", Func: site.name, Text: text}
		o.Res.Verdict = verdict
		o.Res.Solver = "product-automaton"
		o.Res.Output = out
		o.Res.Model = model
		return o
	}
	sp := e.P.ByPkg[site.pkg]
	var info *globalInfo
	if sp != nil {
		if g, ok := sp.Members[site.table].(*ssa.Global); ok {
			info = theGlobals.info[g]
		}
	}
	if info == nil || info.table == nil || !info.readOnly || info.ambiguous {
		return []*Obligation{mk(base, "number alphabet table is a read-only constant array", "error", site.pkg+"."+site.table+" cannot be extracted from the current source", nil)}
	}
	var allowed [nCls]bool
	for i, v := range info.table {
		if v.Sign() == 0 {
			continue
		}
		c := classOf(byte(i))
		if c < 0 {
			return []*Obligation{mk(base+"/alphabet", "every byte admitted by "+site.table+" belongs to the decimal number alphabet", "sat",
				fmt.Sprintf("%s admits byte %q", site.table, byte(i)), map[string]string{"literal": "1" + string(rune(i))})}
		}
		allowed[c] = true
	}
	type st struct{ g, j int }
	type node struct {
		s   st
		lit string
	}
	start := st{0, 0}
	seen := map[st]bool{start: true}
	queue := []node{{start, ""}}
	fails := map[string]string{} // failure key -> shortest literal
	var keys []string
	record := func(key, lit string) {
		if _, ok := fails[key]; !ok {
			fails[key] = lit
			keys = append(keys, key)
		}
	}
	for len(queue) > 0 {
		n := queue[0]
		queue = queue[1:]
		if n.s.j >= 0 && n.lit != "" {
			goOK := goFloatAccept(n.s.g) || site.noParseFloat
			if goOK && !jsonAccept(n.s.j) {
				record(fmt.Sprintf("ends %s", jsonStateName[n.s.j]), n.lit)
			}
		}
		for c := 0; c < nCls; c++ {
			if !allowed[c] {
				continue
			}
			if n.lit == "" && !site.firstAny && !(c == clsMinus || c == clsZero || c == clsDigit) {
				continue
			}
			g := goFloatStep(n.s.g, c)
			if site.noParseFloat {
				g = 0
			}
			if g < 0 {
				continue
			}
			j := -1
			if n.s.j >= 0 {
				j = jsonStep(n.s.j, c)
			}
			lit := n.lit + string(clsRep[c])
			if j < 0 {
				// the JSON automaton died here; any Go-accepted completion is a counterexample
				if n.s.j >= 0 {
					// find a shortest accepted completion in the Go automaton
					if w, ok := goCompletion(g, allowed, site.noParseFloat); ok {
						record(fmt.Sprintf("%s then %s", jsonStateName[n.s.j], clsName[c]), lit+w)
					}
				}
				continue
			}
			ns := st{g, j}
			if !seen[ns] {
				seen[ns] = true
				queue = append(queue, node{ns, lit})
			}
		}
	}
	if len(keys) == 0 {
		return []*Obligation{mk(base, "every token the scanner and ParseFloat accept is an RFC 8259 number (product automaton fully explored)", "unsat", "", nil)}
	}
	sort.Strings(keys)
	var out []*Obligation
	for _, k := range keys {
		out = append(out, mk(base+"/"+sanitize(k), "accepted number tokens are RFC 8259 numbers; JSON grammar violated: "+k, "sat",
			fmt.Sprintf("shortest accepted non-JSON literal: %q", fails[k]), map[string]string{"literal": fails[k]}))
	}
	return out
}

// goCompletion: shortest suffix leading the Go float automaton from state g to acceptance.
func goCompletion(g int, allowed [nCls]bool, anything bool) (string, bool) {
	if anything || goFloatAccept(g) {
		return "", true
	}
	type node struct {
		s int
		w string
	}
	seen := map[int]bool{g: true}
	q := []node{{g, ""}}
	for len(q) > 0 {
		n := q[0]
		q = q[1:]
		for c := 0; c < nCls; c++ {
			if !allowed[c] {
				continue
			}
			t := goFloatStep(n.s, c)
			if t < 0 || seen[t] {
				continue
			}
			w := n.w + string(clsRep[c])
			if goFloatAccept(t) {
				return w, true
			}
			seen[t] = true
			q = append(q, node{t, w})
		}
	}
	return "", false
}

func init() {
	// The three sites this lemma was written for (decoder number tokens, encoder.compactNumber,
	// encoder.AppendNumber) now validate the token with a grammar function that is under a
	// function contract (isValidNumberToken / isValidNumber, proved sound against the number DFA),
	// so the character-class + ParseFloat argument is no longer what the code relies on. The
	// product-automaton exploration is kept for the thorough tier as a cross-check of the claim
	// "first . floatTable* /\ goFloat is NOT a subset of jsonNumber" that motivated the repair.
}
