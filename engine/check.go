package main

import (
	"encoding/json"
	"fmt"
	"os"
	"path/filepath"
	"sort"
	"strconv"
	"strings"
	"time"
)

type KnownFinding struct {
	Property   string `json:"property"`
	Obligation string `json:"obligation"`
	Status     string `json:"status"` // "open" | "fixed"
	What       string `json:"what"`
	Commit     string `json:"commit,omitempty"`
	Input      string `json:"input,omitempty"`
}

func loadKnownFindings() []KnownFinding {
	var kf []KnownFinding
	data, err := os.ReadFile("/verif/known_findings.json")
	if err != nil {
		return nil
	}
	var wrap struct {
		Findings []KnownFinding `json:"findings"`
	}
	if json.Unmarshal(data, &wrap) == nil {
		kf = wrap.Findings
	}
	return kf
}

type lemmaFunc func(e *Engine, prop string) ([]*Obligation, []string, error)

type boundedSpec struct {
	Name, Pkg, Template, What string
}

// bounded stand-ins per property (run on the real code, labelled bounded)
var boundedRegistry = map[string][]boundedSpec{
	"C18": {{Name: "Compact/Indent acceptance and output against encoding/json", Pkg: ".", Template: "json_compact_indent.go",
		What: "stands in for the container grammar and byte-for-byte output of Compact/Indent, which no function contract states (indentValue family has a trusted contract)"}},
	"C03": {{Name: "well-formedness of encoder output over struct shapes", Pkg: ".", Template: "json_encode_shapes.go",
		What: "stands in for the trailing-comma / closer discipline of the container opcodes, which no contract states (Run is proved only with respect to call-site preconditions)"}},
	"C05": {{Name: "acceptance against encoding/json", Pkg: ".", Template: "json_accept.go",
		What: "stands in for the container grammar, the members a destination ignores and the entry points that run the stream decoder (Valid, Decoder), none of which a contract states"}},
	"C06": {{Name: "stream decoding against one-piece and buffer decoding", Pkg: ".", Template: "json_stream_chunks.go",
		What: "stands in for the stream-mode scanners that are not under a safety contract (string, key and skip scanners with their refill branches): the chunking corpus of C09, run here for its panic classes"}},
	"C07": {{Name: "destination canaries", Pkg: ".", Template: "json_canary.go",
		What: "stands in for the destinations whose decoders are not under a frame contract (struct, map, interface, embedded fields, byte slices, nested combinations) and for the traversability of the destination after failed decodes"}},
	"C09": {{Name: "stream decoding against one-piece and buffer decoding", Pkg: ".", Template: "json_stream_chunks.go",
		What: "stands in for the refill-and-retry branches of the stream scanners that are not under contract (numbers, strings, containers, keys, skip functions) and for stream = buffer agreement"}},
	"C11": {{Name: "history independence", Pkg: ".", Template: "json_history.go",
		What: "stands in for the cross-call state that the initialisation contracts do not reach (opcode programs and decoders cached per type, pooled buffers deeper in the interpreters, Path/Encoder/Decoder objects after errors)"}},
	"C12": {{Name: "aliasing scenarios", Pkg: ".", Template: "json_alias.go",
		What: "stands in for the aliasing of decoded values and returned slices deeper inside the library (RawMessage, []byte, strings, UnmarshalJSON payloads, marshaler output, pooled buffers, Decoder history), which the entry-point contracts do not follow"}},
	"C15": {{Name: "struct key selection against encoding/json", Pkg: ".", Template: "json_keymatch.go",
		What: "stands in for what the scanner contracts assume or leave outside: the bitmap built by tryOptimize (wfRows/wfLastRow preconditions), the fieldMap fallback, and the stream-mode twins"}},
	"C16": {{Name: "AppendInt/AppendUint exact output", Pkg: "internal/encoder", Template: "encoder_appendint.go",
		What: "stands in for the [unverified] exact-output clauses of encoder.AppendInt / encoder.AppendUint"},
		{Name: "integers in every position", Pkg: ".", Template: "json_int_positions.go",
			What: "stands in for the choice of emitter and width made by the reflection-driven compilers (trusted in the contracts): every integer kind at its boundary values as value, pointer, struct field (plain, omitempty, string), slice and array element, map key and map value, encoded and decoded, against encoding/json"}},
	"C04": {{Name: "string escaping and unescaping against encoding/json", Pkg: ".", Template: "json_strings.go",
		What: "stands in for the string half of the round trip, which is not under a functional contract (the integer leaves are proved): every valid UTF-8 string of the bounded family is encoded and decoded back as value, struct field, map key and slice element through Marshal, MarshalIndent and Encoder/Decoder"},
		{Name: "round trip of non-integer, non-string values", Pkg: ".", Template: "json_roundtrip.go",
			What: "stands in for the value kinds whose conversion is delegated (floats: strconv; byte slices: encoding/base64) or compiled by the trusted reflection-driven compilers (containers, structs, pointers, interfaces): a bounded family of such values is round-tripped through every entry point"},
		{Name: "integers in every position", Pkg: ".", Template: "json_int_positions.go",
			What: "stands in for the emitter and width the compiled program uses for an integer in a given position (the leaves are proved for the width they are given): every integer kind at its boundary values in every position, encoded and decoded back"}},
	"C14": {{Name: "run-time created types", Pkg: ".", Template: "json_typecache.go",
		What: "stands in for the copy-on-write maps that both caches use for types outside the linker's address window (maps holding pointers are outside the verifier's subset): run-time created types of the same layout are encoded and decoded in interleaved orders"}},
	"C17": {{Name: "string escaping and unescaping against encoding/json", Pkg: ".", Template: "json_strings.go",
		What: "stands in for WHICH bytes the string emitters write and WHICH character an escape decodes to: the contracts prove that no byte needing an escape is copied, that exactly well-formed UTF-8 is reported valid and that the unescaper is memory-safe on validated bodies, not the escape table or the unescaped value"}},
}

// lemmas registered per property (table lemmas, automaton inclusions, bit-vector islands)
var lemmaRegistry = map[string][]lemmaFunc{}

type checkReport struct {
	prop       string
	tier       string
	obls       []*Obligation
	funcs      []string
	trusted    []string
	notes      map[string]bool
	genErrs    []string
	bounded    []map[string]interface{}
	t0         time.Time
	nTrivial   int
	boundedFail []string
	boundedClasses []boundedClass
}

type boundedClass struct{ Obl, Detail string }

func propsOfManifest() map[string]bool {
	out := map[string]bool{}
	data, err := os.ReadFile("/verif/MANIFEST.json")
	if err != nil {
		return out
	}
	var m struct {
		Checks []struct {
			PropertyID string `json:"property_id"`
		} `json:"checks"`
	}
	if json.Unmarshal(data, &m) == nil {
		for _, c := range m.Checks {
			out[c.PropertyID] = true
		}
	}
	return out
}

func cmdCheck(args []string) int {
	prop := ""
	tier := os.Getenv("VERIF_TIER")
	if tier == "" {
		tier = "quick"
	}
	for i := 0; i < len(args); i++ {
		switch {
		case args[i] == "--tier" && i+1 < len(args):
			tier = args[i+1]
			i++
		case strings.HasPrefix(args[i], "--tier="):
			tier = strings.TrimPrefix(args[i], "--tier=")
		default:
			prop = args[i]
		}
	}
	if prop == "" {
		fmt.Fprintln(os.Stderr, "usage: govc check Cxx [--tier quick|thorough]")
		return 2
	}
	seed := 0
	if s := os.Getenv("VERIF_SEED"); s != "" {
		seed, _ = strconv.Atoi(s)
	}
	rep := &checkReport{prop: prop, tier: tier, notes: map[string]bool{}, t0: time.Now()}
	os.RemoveAll(filepath.Join(outDir(), "replays", prop)) // replay files always describe the current run
	e, err := newEngine(tier)
	if err != nil {
		return failHard(rep, seed, "load", fmt.Sprintf("cannot load /repo or the contracts: %v", err))
	}
	rep.genErrs = append(rep.genErrs, e.errs...)
	// functions under contract for this property
	for _, key := range e.CS.Order {
		c := e.CS.Funcs[key]
		if !c.hasProp(prop) {
			continue
		}
		if c.Trusted != "" {
			rep.trusted = append(rep.trusted, fmt.Sprintf("%s (%s)", key, c.Trusted))
			continue
		}
		if c.IsFuncType {
			continue
		}
		fn := e.P.Funcs[key]
		if fn == nil {
			continue // already reported in e.errs
		}
		rep.funcs = append(rep.funcs, key)
		obls, notes, err := e.verifyFunction(fn, c, prop)
		if err != nil {
			rep.genErrs = append(rep.genErrs, fmt.Sprintf("%s: %v", key, err))
			continue
		}
		n := 0
		for _, o := range obls {
			if !o.Cover {
				n++
			}
		}
		if n == 0 && trivialObls[key] == 0 {
			rep.genErrs = append(rep.genErrs, fmt.Sprintf("%s: function under contract produced no obligations", key))
		}
		rep.obls = append(rep.obls, obls...)
		for _, n := range notes {
			rep.notes[n] = true
		}
	}
	rep.obls = append(rep.obls, e.checkTableLemmas(prop)...)
	rep.obls = append(rep.obls, e.checkWriters(prop)...)
	for _, lf := range lemmaRegistry[prop] {
		obls, notes, err := lf(e, prop)
		if err != nil {
			rep.genErrs = append(rep.genErrs, fmt.Sprintf("lemma: %v", err))
			continue
		}
		rep.obls = append(rep.obls, obls...)
		for _, n := range notes {
			rep.notes[n] = true
		}
	}
	if len(rep.obls) == 0 && len(rep.genErrs) == 0 {
		rep.genErrs = append(rep.genErrs, "no obligations were generated for "+prop)
	}
	e.discharge(rep.obls)
	runBounded(rep, seed)
	return finish(e, rep, seed)
}

func runBounded(rep *checkReport, seed int) {
	for _, bs := range boundedRegistry[rep.prop] {
		out, ok := runOverlayTest(bs.Pkg, filepath.Join("/verif/bounded", bs.Template), "TestGovcBounded",
			[]string{fmt.Sprintf("VERIF_SEED=%d", seed), "GOVC_TIER=" + rep.tier}, 600)
		entry := map[string]interface{}{"name": bs.Name, "what": bs.What, "label": "bounded", "ok": ok}
		var classes []string
		for _, l := range strings.Split(out, "\n") {
			if strings.HasPrefix(l, "BOUNDED-OK") || strings.HasPrefix(l, "BOUNDED-FAIL") {
				entry["result"] = l
			}
			if strings.HasPrefix(l, "BOUNDED-CLASS ") {
				classes = append(classes, strings.TrimPrefix(l, "BOUNDED-CLASS "))
			}
		}
		entry["disagreement_classes"] = classes
		for _, cl := range classes {
			name := strings.Fields(cl)[0]
			rep.boundedClasses = append(rep.boundedClasses, boundedClass{Obl: rep.prop + "/bounded/" + name, Detail: bs.Name + ": " + cl})
		}
		if _, has := entry["result"]; !has {
			entry["result"] = firstLines(out, 5)
		}
		rep.bounded = append(rep.bounded, entry)
		if !ok {
			rep.boundedFail = append(rep.boundedFail, fmt.Sprintf("%s: %v", bs.Name, entry["result"]))
		}
	}
}

func slug(s string) string {
	s = sanitize(s)
	if len(s) > 150 {
		s = s[:150] + fmt.Sprintf("_%x", hashString(s))
	}
	return s
}

func failHard(rep *checkReport, seed int, kind, msg string) int {
	dir := filepath.Join(outDir(), "replays", rep.prop)
	os.MkdirAll(dir, 0o755)
	path := filepath.Join(dir, kind+".json")
	data, _ := json.MarshalIndent(map[string]interface{}{"property": rep.prop, "obligation": rep.prop + "/" + kind, "verdict": kind, "detail": msg}, "", " ")
	os.WriteFile(path, data, 0o644)
	writeEvidence(rep, seed, 0, 0, 1, nil, nil)
	fmt.Printf("VIOLATION property=%s replay=%s no-failing-input-found\n", rep.prop, path)
	fmt.Println("  ", msg)
	return 1
}

func finish(e *Engine, rep *checkReport, seed int) int {
	known := loadKnownFindings()
	openKF := map[string]KnownFinding{}
	for _, k := range known {
		if k.Property == rep.prop && k.Status == "open" {
			openKF[k.Obligation] = k
		}
	}
	var failed, knownHit []*Obligation
	total, discharged, covers := 0, 0, 0
	// return covers: a function is vacuous only if none of its returns is reachable
	retSat := map[string]bool{}
	retAll := map[string][]*Obligation{}
	for _, o := range rep.obls {
		if o.Kind == "cover-return" {
			retAll[o.Func] = append(retAll[o.Func], o)
			if o.Res.Verdict != "unsat" {
				retSat[o.Func] = true
			}
		}
	}
	for fn, os := range retAll {
		if !retSat[fn] {
			failed = append(failed, os[0])
		}
	}
	for _, o := range rep.obls {
		if o.Kind == "cover-return" {
			covers++
			continue
		}
		if o.Cover {
			covers++
			if !o.ok() {
				failed = append(failed, o)
			}
			continue
		}
		if o.ok() {
			total++
			discharged++
			continue
		}
		if _, ok := openKF[o.Name]; ok {
			knownHit = append(knownHit, o)
			continue
		}
		total++
		failed = append(failed, o)
	}
	violations := 0
	dir := filepath.Join(outDir(), "replays", rep.prop)
	for _, msg := range rep.genErrs {
		os.MkdirAll(dir, 0o755)
		path := filepath.Join(dir, "generation_"+slug(msg)+".json")
		data, _ := json.MarshalIndent(map[string]interface{}{"property": rep.prop, "obligation": rep.prop + "/generation", "verdict": "target-missing-or-unsupported", "detail": msg}, "", " ")
		os.WriteFile(path, data, 0o644)
		fmt.Printf("VIOLATION property=%s replay=%s no-failing-input-found\n", rep.prop, path)
		fmt.Println("   obligation generation failed (fail closed):", msg)
		violations++
	}
	for _, bc := range rep.boundedClasses {
		if k, ok := openKF[bc.Obl]; ok {
			fmt.Printf("KNOWN-FINDING: property=%s %s [%s]\n", rep.prop, k.What, k.Obligation)
			continue
		}
		os.MkdirAll(dir, 0o755)
		path := filepath.Join(dir, slug(bc.Obl)+".json")
		data, _ := json.MarshalIndent(map[string]interface{}{"property": rep.prop, "obligation": bc.Obl, "verdict": "bounded-disagreement", "detail": bc.Detail}, "", " ")
		os.WriteFile(path, data, 0o644)
		fmt.Printf("VIOLATION property=%s replay=%s\n", rep.prop, path)
		fmt.Println("   bounded stand-in found a disagreement with encoding/json on the real code:", bc.Detail)
		violations++
	}
	for _, msg := range rep.boundedFail {
		os.MkdirAll(dir, 0o755)
		path := filepath.Join(dir, "bounded_"+slug(msg)+".json")
		data, _ := json.MarshalIndent(map[string]interface{}{"property": rep.prop, "obligation": rep.prop + "/bounded", "verdict": "bounded-check-failed", "detail": msg}, "", " ")
		os.WriteFile(path, data, 0o644)
		fmt.Printf("VIOLATION property=%s replay=%s\n", rep.prop, path)
		fmt.Println("   bounded stand-in failed on the real code:", msg)
		violations++
	}
	for _, o := range failed {
		os.MkdirAll(dir, 0o755)
		path := filepath.Join(dir, slug(o.Name)+".json")
		rp := map[string]interface{}{
			"property": rep.prop, "obligation": o.Name, "function": o.Func, "kind": o.Kind, "clause": o.Text, "position": o.Pos,
			"verdict": o.Res.Verdict, "solver": o.Res.Solver, "solver_output": firstLines(o.Res.Output, 12), "per_solver": o.Res.PerSolv,
			"model": o.Res.Model,
		}
		suffix := " no-failing-input-found"
		if o.Cover {
			rp["detail"] = "vacuity guard: the preconditions of this function are unsatisfiable"
		} else if o.Res.Verdict == "sat" || o.Res.Verdict == "timeout" || o.Res.Verdict == "unknown" {
			// without a model the replay templates still run their fixed corpus for this function family
			out, confirmed, cmd := replayOnRealCode(e, o)
			rp["replay_cmd"] = cmd
			rp["replay_output"] = out
			rp["replay_confirmed"] = confirmed
			if confirmed {
				suffix = ""
			}
		}
		data, _ := json.MarshalIndent(rp, "", " ")
		os.WriteFile(path, data, 0o644)
		fmt.Printf("VIOLATION property=%s replay=%s%s\n", rep.prop, path, suffix)
		fmt.Printf("   failed obligation %s (%s): %s\n", o.Name, o.Res.Verdict, o.Text)
		violations++
	}
	// known findings are printed once per entry that still fails
	seenKF := map[string]bool{}
	for _, o := range knownHit {
		k := openKF[o.Name]
		if !seenKF[k.Obligation] {
			seenKF[k.Obligation] = true
			fmt.Printf("KNOWN-FINDING: property=%s %s [%s]\n", rep.prop, k.What, k.Obligation)
		}
	}
	writeEvidence(rep, seed, total, discharged, violations, knownHit, failed)
	fmt.Printf("%s %s: %d functions under contract, %d obligations, %d discharged, %d covers, %d known findings, %d violations, %.1fs\n",
		rep.prop, rep.tier, len(rep.funcs), total, discharged, covers, len(knownHit), violations, time.Since(rep.t0).Seconds())
	if violations > 0 {
		return 1
	}
	return 0
}

func writeEvidence(rep *checkReport, seed, total, discharged, violations int, knownHit, failed []*Obligation) {
	os.MkdirAll(filepath.Join(outDir(), "evidence"), 0o755)
	var samples []map[string]interface{}
	kinds := map[string]int{}
	perFunc := map[string]int{}
	for i, o := range rep.obls {
		kinds[o.Kind]++
		perFunc[o.Func]++
		if len(samples) < 12 && (i%(len(rep.obls)/12+1) == 0) {
			samples = append(samples, map[string]interface{}{"obligation": o.Name, "clause": o.Text, "verdict": o.Res.Verdict, "solver": o.Res.Solver, "secs": o.Res.Secs})
		}
	}
	if len(samples) == 0 {
		samples = append(samples, map[string]interface{}{"obligation": "(none generated)"})
	}
	var kfNames []string
	for _, o := range knownHit {
		kfNames = append(kfNames, o.Name)
	}
	var assumptions []string
	for n := range rep.notes {
		assumptions = append(assumptions, n)
	}
	sort.Strings(assumptions)
	base := []string{
		"go/packages, go/types and go/ssa (x/tools v0.29.0) build the SSA this run verified from the current /repo tree (tags: verif)",
		"the VC generator /verif/engine (govc) itself",
		"z3 4.8.12, z3-new 5.1.0, cvc5 1.0 (first unsat wins; thorough tier cross-checks all three)",
		"gc/amd64 data layout from types.SizesFor, little-endian",
		"type-safe separation: Go-typed struct fields (Burstall heap classes) do not overlap raw byte regions",
		"allocation returns fresh, zeroed, disjoint memory and never fails",
	}
	for _, t := range rep.trusted {
		base = append(base, "trusted contract (body not verified): "+t)
	}
	solverStats.Lock()
	per := map[string]int{}
	for k, v := range solverStats.wins {
		per[k] = v
	}
	totalSecs, maxSecs := solverStats.total, solverStats.max
	solverStats.Unlock()
	ev := map[string]interface{}{
		"property_id": rep.prop,
		"tier":        rep.tier,
		"seed":        seed,
		"level":       "proof",
		"coverage": map[string]interface{}{
			"obligations":              total,
			"discharged":               discharged,
			"checker_cmd":              fmt.Sprintf("/verif/bin/govc check %s --tier %s", rep.prop, rep.tier),
			"trusted_base":             base,
			"functions_under_contract": rep.funcs,
			"obligations_by_kind":      kinds,
			"obligations_by_function":  perFunc,
			"covers_checked":           kinds["cover"],
			"per_solver_wins":          per,
			"solver_time_total_s":      totalSecs,
			"solver_time_max_s":        maxSecs,
			"samples":                  samples,
			"known_findings_excluded":  kfNames,
			"bounded":                  rep.bounded,
			"generation_errors":        rep.genErrs,
		},
		"assumptions": assumptions,
		"wall_s":      time.Since(rep.t0).Seconds(),
		"violations":  violations,
	}
	data, _ := json.MarshalIndent(ev, "", " ")
	os.WriteFile(filepath.Join(outDir(), "evidence", rep.prop+".json"), data, 0o644)
}

// outDir is where evidence and replay files go: /verif, or $GOVC_OUT when a check is run against a
// scratch copy of the repository (seed testing in parallel with the registered checks).
func outDir() string {
	if d := os.Getenv("GOVC_OUT"); d != "" {
		return d
	}
	return "/verif"
}
