package main

// Term builder: hash-consed, constant-folding SMT-LIB2 terms over Int / Bool /
// (Array Int Int) / (Array Int Bool). All Go integers are SMT Ints with exact
// wrap-around modelled by the executor; nothing here is "mathematical by
// default" except contract-level arithmetic.

import (
	"fmt"
	"sync"
	"math/big"
	"sort"
	"strings"
)

type Sort int

const (
	SBool Sort = iota
	SInt
	SArrII // (Array Int Int)
	SArrIB // (Array Int Bool)
)

func (s Sort) String() string {
	switch s {
	case SBool:
		return "Bool"
	case SInt:
		return "Int"
	case SArrII:
		return "(Array Int Int)"
	case SArrIB:
		return "(Array Int Bool)"
	}
	return "?"
}

type Term struct {
	op    string // "const","true","false","var","bvar", operators, "app:<name>", "forall","exists"
	args  []*Term
	sort  Sort
	ival  *big.Int
	name  string
	id    int
	bound bool // mentions a bound variable (cannot be hoisted)
	quant bool // contains a quantifier
	bvars []*Term
}

type FuncDef struct {
	name   string
	params []Sort
	ret    Sort
	body   string                    // SMT text of body using parameter names p0,p1…; "" = uninterpreted
	eval   func(args []*Term) *Term // optional folding on constant args
	order  int
}

type Builder struct {
	mu     sync.Mutex
	tab    map[string]*Term
	nextID int
	vars   map[string]*Term // declared constants
	vorder []*Term
	funcs  map[string]*FuncDef
	forder []*FuncDef
	fresh  map[string]int
	tt, ff *Term
}

func NewBuilder() *Builder {
	b := &Builder{tab: map[string]*Term{}, vars: map[string]*Term{}, funcs: map[string]*FuncDef{}, fresh: map[string]int{}}
	b.tt = b.mk("true", nil, SBool, nil, "")
	b.ff = b.mk("false", nil, SBool, nil, "")
	return b
}

func (b *Builder) mk(op string, args []*Term, s Sort, iv *big.Int, name string) *Term {
	var sb strings.Builder
	sb.WriteString(op)
	sb.WriteByte('|')
	if iv != nil {
		sb.WriteString(iv.String())
	}
	sb.WriteString(name)
	for _, a := range args {
		fmt.Fprintf(&sb, ",%d", a.id)
	}
	key := sb.String()
	if t, ok := b.tab[key]; ok {
		return t
	}
	t := &Term{op: op, args: args, sort: s, ival: iv, name: name, id: b.nextID}
	b.nextID++
	if op == "bvar" {
		t.bound = true
	}
	for _, a := range args {
		if a.bound {
			t.bound = true
		}
		if a.quant {
			t.quant = true
		}
	}
	if op == "forall" || op == "exists" {
		t.quant = true
	}
	b.tab[key] = t
	return t
}

func (b *Builder) True() *Term  { return b.tt }
func (b *Builder) False() *Term { return b.ff }
func (b *Builder) Bool(v bool) *Term {
	if v {
		return b.tt
	}
	return b.ff
}
func (b *Builder) Int(v int64) *Term      { return b.Big(big.NewInt(v)) }
func (b *Builder) Big(v *big.Int) *Term   { return b.mk("const", nil, SInt, new(big.Int).Set(v), "") }
func (b *Builder) IntStr(s string) *Term  { v, _ := new(big.Int).SetString(s, 10); return b.Big(v) }
func (t *Term) IsConst() bool             { return t.op == "const" }
func (t *Term) IsTrue() bool              { return t.op == "true" }
func (t *Term) IsFalse() bool             { return t.op == "false" }
func (t *Term) ConstInt64() (int64, bool) { return t.ival.Int64(), t.op == "const" && t.ival.IsInt64() }

func sanitize(s string) string {
	var sb strings.Builder
	for _, r := range s {
		switch {
		case r >= 'a' && r <= 'z', r >= 'A' && r <= 'Z', r >= '0' && r <= '9', r == '_', r == '.', r == '$', r == '@', r == '#', r == '!':
			sb.WriteRune(r)
		default:
			sb.WriteByte('_')
		}
	}
	return sb.String()
}

// Var declares (or returns) a named constant.
func (b *Builder) Var(name string, s Sort) *Term {
	name = sanitize(name)
	if t, ok := b.vars[name]; ok {
		if t.sort != s {
			panic("sort clash for " + name)
		}
		return t
	}
	t := b.mk("var", nil, s, nil, name)
	b.vars[name] = t
	b.vorder = append(b.vorder, t)
	return t
}

// Fresh declares a new constant with a unique suffix.
func (b *Builder) Fresh(prefix string, s Sort) *Term {
	prefix = sanitize(prefix)
	for {
		n := b.fresh[prefix]
		b.fresh[prefix] = n + 1
		name := fmt.Sprintf("%s!%d", prefix, n)
		if _, ok := b.vars[name]; !ok {
			return b.Var(name, s)
		}
	}
}

func (b *Builder) BVar(name string, s Sort) *Term {
	n := b.fresh["%bv"]
	b.fresh["%bv"] = n + 1
	return b.mk("bvar", nil, s, nil, fmt.Sprintf("%s?%d", sanitize(name), n))
}

// BVarAt names a bound variable by its quantifier nesting depth, so that
// alpha-equivalent contract formulas become the same hash-consed term.
func (b *Builder) BVarAt(name string, depth int, s Sort) *Term {
	return b.mk("bvar", nil, s, nil, fmt.Sprintf("%s?d%d", sanitize(name), depth))
}

func (b *Builder) Not(x *Term) *Term {
	switch {
	case x.IsTrue():
		return b.ff
	case x.IsFalse():
		return b.tt
	case x.op == "not":
		return x.args[0]
	case x.op == "<" && x.args[0].sort == SInt:
		return b.Le(x.args[1], x.args[0])
	case x.op == "<=" && x.args[0].sort == SInt:
		return b.Lt(x.args[1], x.args[0])
	}
	return b.mk("not", []*Term{x}, SBool, nil, "")
}

func (b *Builder) And(xs ...*Term) *Term {
	var out []*Term
	seen := map[int]bool{}
	for _, x := range xs {
		if x.IsFalse() {
			return b.ff
		}
		if x.IsTrue() || seen[x.id] {
			continue
		}
		if x.op == "and" {
			for _, y := range x.args {
				if !seen[y.id] {
					seen[y.id] = true
					out = append(out, y)
				}
			}
			continue
		}
		seen[x.id] = true
		out = append(out, x)
	}
	for _, x := range out {
		if x.op == "not" && seen[x.args[0].id] {
			return b.ff
		}
		if x.op == "<" {
			// a < b together with b <= a
			if c, ok := b.tab[fmt.Sprintf("<=|,%d,%d", x.args[1].id, x.args[0].id)]; ok && seen[c.id] {
				return b.ff
			}
		}
	}
	switch len(out) {
	case 0:
		return b.tt
	case 1:
		return out[0]
	}
	return b.mk("and", out, SBool, nil, "")
}

func (b *Builder) Or(xs ...*Term) *Term {
	var out []*Term
	seen := map[int]bool{}
	for _, x := range xs {
		if x.IsTrue() {
			return b.tt
		}
		if x.IsFalse() || seen[x.id] {
			continue
		}
		if x.op == "or" {
			for _, y := range x.args {
				if !seen[y.id] {
					seen[y.id] = true
					out = append(out, y)
				}
			}
			continue
		}
		seen[x.id] = true
		out = append(out, x)
	}
	for _, x := range out {
		if x.op == "not" && seen[x.args[0].id] {
			return b.tt
		}
		if x.op == "<" {
			if c, ok := b.tab[fmt.Sprintf("<=|,%d,%d", x.args[1].id, x.args[0].id)]; ok && seen[c.id] {
				return b.tt
			}
		}
	}
	switch len(out) {
	case 0:
		return b.ff
	case 1:
		return out[0]
	}
	return b.mk("or", out, SBool, nil, "")
}

func (b *Builder) Implies(x, y *Term) *Term {
	if x.IsTrue() {
		return y
	}
	if x.IsFalse() || y.IsTrue() {
		return b.tt
	}
	if y.IsFalse() {
		return b.Not(x)
	}
	return b.mk("=>", []*Term{x, y}, SBool, nil, "")
}

func (b *Builder) Ite(c, x, y *Term) *Term {
	if c.IsTrue() {
		return x
	}
	if c.IsFalse() {
		return y
	}
	if x == y {
		return x
	}
	if x.sort != y.sort {
		panic(fmt.Sprintf("ite sort mismatch %v %v", x.sort, y.sort))
	}
	if x.sort == SBool {
		if x.IsTrue() && y.IsFalse() {
			return c
		}
		if x.IsFalse() && y.IsTrue() {
			return b.Not(c)
		}
		if x.IsTrue() {
			return b.Or(c, y)
		}
		if y.IsFalse() {
			return b.And(c, x)
		}
		if x.IsFalse() {
			return b.And(b.Not(c), y)
		}
		if y.IsTrue() {
			return b.Or(b.Not(c), x)
		}
	}
	return b.mk("ite", []*Term{c, x, y}, x.sort, nil, "")
}

func (b *Builder) Eq(x, y *Term) *Term {
	if x == y {
		return b.tt
	}
	if x.sort != y.sort {
		panic(fmt.Sprintf("eq sort mismatch %v %v: %s / %s", x.sort, y.sort, b.Show(x), b.Show(y)))
	}
	if x.IsConst() && y.IsConst() {
		return b.Bool(x.ival.Cmp(y.ival) == 0)
	}
	if x.sort == SBool {
		if x.IsTrue() {
			return y
		}
		if y.IsTrue() {
			return x
		}
		if x.IsFalse() {
			return b.Not(y)
		}
		if y.IsFalse() {
			return b.Not(x)
		}
	}
	// push equality with a constant through ite of constants (switch chains)
	if x.sort == SInt {
		if r, ok := b.distribute(b.Eq, x, y); ok {
			return r
		}
	}
	if x.id > y.id {
		x, y = y, x
	}
	return b.mk("=", []*Term{x, y}, SBool, nil, "")
}

// iteConst: t is an ite whose branches are both constants (after nesting).
func iteConst(t *Term) bool {
	return t.op == "ite" && (t.args[1].IsConst() || iteConst(t.args[1])) && (t.args[2].IsConst() || iteConst(t.args[2]))
}

// distribute applies a binary builder over an ite-of-constants operand.
func (b *Builder) distribute(f func(x, y *Term) *Term, x, y *Term) (*Term, bool) {
	if x.IsConst() && iteConst(y) {
		return b.Ite(y.args[0], f(x, y.args[1]), f(x, y.args[2])), true
	}
	if y.IsConst() && iteConst(x) {
		return b.Ite(x.args[0], f(x.args[1], y), f(x.args[2], y)), true
	}
	return nil, false
}

func (b *Builder) Ne(x, y *Term) *Term { return b.Not(b.Eq(x, y)) }

func (b *Builder) Le(x, y *Term) *Term {
	if x == y {
		return b.tt
	}
	if x.IsConst() && y.IsConst() {
		return b.Bool(x.ival.Cmp(y.ival) <= 0)
	}
	if r, ok := b.distribute(b.Le, x, y); ok {
		return r
	}
	return b.mk("<=", []*Term{x, y}, SBool, nil, "")
}
func (b *Builder) Lt(x, y *Term) *Term {
	if x == y {
		return b.ff
	}
	if x.IsConst() && y.IsConst() {
		return b.Bool(x.ival.Cmp(y.ival) < 0)
	}
	if r, ok := b.distribute(b.Lt, x, y); ok {
		return r
	}
	return b.mk("<", []*Term{x, y}, SBool, nil, "")
}
func (b *Builder) Ge(x, y *Term) *Term { return b.Le(y, x) }
func (b *Builder) Gt(x, y *Term) *Term { return b.Lt(y, x) }

// linear normalisation is deliberately light: fold constants, flatten sums.
func (b *Builder) Add(xs ...*Term) *Term {
	if len(xs) == 2 {
		if r, ok := b.distribute(func(p, q *Term) *Term { return b.Add(p, q) }, xs[0], xs[1]); ok {
			return r
		}
	}
	c := new(big.Int)
	var out []*Term
	var push func(t *Term)
	push = func(t *Term) {
		if t.IsConst() {
			c.Add(c, t.ival)
		} else if t.op == "+" {
			for _, a := range t.args {
				push(a)
			}
		} else {
			out = append(out, t)
		}
	}
	for _, x := range xs {
		push(x)
	}
	if len(out) == 0 {
		return b.Big(c)
	}
	sort.SliceStable(out, func(i, j int) bool { return out[i].id < out[j].id })
	if c.Sign() != 0 {
		out = append(out, b.Big(c))
	}
	if len(out) == 1 {
		return out[0]
	}
	return b.mk("+", out, SInt, nil, "")
}

func (b *Builder) Neg(x *Term) *Term {
	if x.IsConst() {
		return b.Big(new(big.Int).Neg(x.ival))
	}
	return b.Mul(b.Int(-1), x)
}

func (b *Builder) Sub(x, y *Term) *Term {
	if x == y {
		return b.Int(0)
	}
	if y.IsConst() {
		return b.Add(x, b.Big(new(big.Int).Neg(y.ival)))
	}
	if x.IsConst() && x.ival.Sign() == 0 {
		return b.Neg(y)
	}
	if r, ok := b.distribute(b.Sub, x, y); ok {
		return r
	}
	// (a + c) - a
	if x.op == "+" {
		var rest []*Term
		found := false
		for _, a := range x.args {
			if a == y && !found {
				found = true
				continue
			}
			rest = append(rest, a)
		}
		if found {
			return b.Add(rest...)
		}
	}
	return b.mk("-", []*Term{x, y}, SInt, nil, "")
}

func (b *Builder) Mul(x, y *Term) *Term {
	if x.IsConst() && y.IsConst() {
		return b.Big(new(big.Int).Mul(x.ival, y.ival))
	}
	if y.IsConst() {
		x, y = y, x
	}
	if x.IsConst() && iteConst(y) {
		return b.Ite(y.args[0], b.Mul(x, y.args[1]), b.Mul(x, y.args[2]))
	}
	if x.IsConst() {
		if x.ival.Sign() == 0 {
			return b.Int(0)
		}
		if x.ival.Cmp(big.NewInt(1)) == 0 {
			return y
		}
		if y.op == "*" && y.args[0].IsConst() {
			return b.Mul(b.Big(new(big.Int).Mul(x.ival, y.args[0].ival)), y.args[1])
		}
		if y.op == "+" {
			// distribute constants over sums so cursor arithmetic stays linear and foldable
			var parts []*Term
			for _, a := range y.args {
				parts = append(parts, b.Mul(x, a))
			}
			return b.Add(parts...)
		}
	}
	return b.mk("*", []*Term{x, y}, SInt, nil, "")
}

// Div / Mod are SMT-LIB (floor for positive divisors).
func (b *Builder) Div(x, y *Term) *Term {
	if x.IsConst() && y.IsConst() && y.ival.Sign() > 0 {
		q, m := new(big.Int), new(big.Int)
		q.DivMod(x.ival, y.ival, m) // Euclidean: m >= 0
		return b.Big(q)
	}
	if y.IsConst() && y.ival.Cmp(big.NewInt(1)) == 0 {
		return x
	}
	return b.mk("div", []*Term{x, y}, SInt, nil, "")
}
func (b *Builder) Mod(x, y *Term) *Term {
	if x.IsConst() && y.IsConst() && y.ival.Sign() > 0 {
		q, m := new(big.Int), new(big.Int)
		q.DivMod(x.ival, y.ival, m)
		return b.Big(m)
	}
	if y.IsConst() && y.ival.Cmp(big.NewInt(1)) == 0 {
		return b.Int(0)
	}
	return b.mk("mod", []*Term{x, y}, SInt, nil, "")
}

func (b *Builder) Select(a, i *Term) *Term {
	// read-over-write with syntactically decidable indices
	for a.op == "store" {
		idx := a.args[1]
		if idx == i {
			return a.args[2]
		}
		if d, ok := b.constDiff(idx, i); ok && d != 0 {
			a = a.args[0]
			continue
		}
		break
	}
	if a.op == "constarr" {
		return a.args[0]
	}
	rs := SInt
	if a.sort == SArrIB {
		rs = SBool
	}
	return b.mk("select", []*Term{a, i}, rs, nil, "")
}

// constDiff reports x-y when it is a syntactic constant.
func (b *Builder) constDiff(x, y *Term) (int64, bool) {
	d := b.Sub(x, y)
	if d.IsConst() && d.ival.IsInt64() {
		return d.ival.Int64(), true
	}
	// (+ a c1) vs (+ a c2) handled by Sub only in simple cases; try stripping constants
	bx, cx := splitConst(x)
	by, cy := splitConst(y)
	if len(bx) == len(by) {
		same := true
		for i := range bx {
			if bx[i] != by[i] {
				same = false
			}
		}
		if same {
			return cx - cy, true
		}
	}
	return 0, false
}

func splitConst(t *Term) ([]*Term, int64) {
	if t.IsConst() && t.ival.IsInt64() {
		return nil, t.ival.Int64()
	}
	if t.op == "+" {
		var rest []*Term
		var c int64
		for _, a := range t.args {
			if a.IsConst() && a.ival.IsInt64() {
				c += a.ival.Int64()
			} else {
				rest = append(rest, a)
			}
		}
		return rest, c
	}
	return []*Term{t}, 0
}

func (b *Builder) Store(a, i, v *Term) *Term {
	if a.op == "store" && a.args[1] == i {
		a = a.args[0]
	}
	return b.mk("store", []*Term{a, i, v}, a.sort, nil, "")
}

func (b *Builder) ConstArr(s Sort, v *Term) *Term {
	return b.mk("constarr", []*Term{v}, s, nil, "")
}

func (b *Builder) Forall(vars []*Term, body *Term) *Term {
	if body.IsTrue() || body.IsFalse() || !body.bound {
		return body
	}
	t := b.mk("forall", append([]*Term{body}, vars...), SBool, nil, "")
	t.bound = b.stillBound(t)
	return t
}
func (b *Builder) Exists(vars []*Term, body *Term) *Term {
	if body.IsTrue() || body.IsFalse() || !body.bound {
		return body
	}
	t := b.mk("exists", append([]*Term{body}, vars...), SBool, nil, "")
	t.bound = b.stillBound(t)
	return t
}

// stillBound: a quantifier is "bound" (non-hoistable) only if its body mentions
// bound variables other than its own.
func (b *Builder) stillBound(q *Term) bool {
	own := map[*Term]bool{}
	for _, v := range q.args[1:] {
		own[v] = true
	}
	seen := map[*Term]bool{}
	var walk func(t *Term) bool
	walk = func(t *Term) bool {
		if !t.bound || seen[t] {
			return false
		}
		seen[t] = true
		if t.op == "bvar" {
			return !own[t]
		}
		if (t.op == "forall" || t.op == "exists") && t != q {
			// t.bound already says it has outer-bound vars; need to know whether they are ours
			inner := map[*Term]bool{}
			for _, v := range t.args[1:] {
				inner[v] = true
			}
			old := own
			own2 := map[*Term]bool{}
			for k := range old {
				own2[k] = true
			}
			for k := range inner {
				own2[k] = true
			}
			own = own2
			r := walk(t.args[0])
			own = old
			return r
		}
		for _, a := range t.args {
			if walk(a) {
				return true
			}
		}
		return false
	}
	return walk(q.args[0])
}

// DefineFun registers a defined or uninterpreted function.
func (b *Builder) DefineFun(name string, params []Sort, ret Sort, body string, eval func([]*Term) *Term) *FuncDef {
	name = sanitize(name)
	if f, ok := b.funcs[name]; ok {
		return f
	}
	f := &FuncDef{name: name, params: params, ret: ret, body: body, eval: eval, order: len(b.forder)}
	b.funcs[name] = f
	b.forder = append(b.forder, f)
	return f
}

func (b *Builder) App(name string, args ...*Term) *Term {
	name = sanitize(name)
	f := b.funcs[name]
	if f == nil {
		panic("unknown function " + name)
	}
	if len(args) != len(f.params) {
		panic("arity mismatch for " + name)
	}
	if f.eval != nil {
		if r := f.eval(args); r != nil {
			return r
		}
	}
	return b.mk("app:"+name, args, f.ret, nil, "")
}

// Subst replaces variables (by pointer) in t.
func (b *Builder) Subst(t *Term, m map[*Term]*Term) *Term {
	if len(m) == 0 {
		return t
	}
	memo := map[*Term]*Term{}
	var rec func(t *Term) *Term
	rec = func(t *Term) *Term {
		if r, ok := m[t]; ok {
			return r
		}
		if len(t.args) == 0 {
			return t
		}
		if r, ok := memo[t]; ok {
			return r
		}
		args := make([]*Term, len(t.args))
		ch := false
		for i, a := range t.args {
			args[i] = rec(a)
			if args[i] != a {
				ch = true
			}
		}
		var r *Term
		if !ch {
			r = t
		} else {
			r = b.rebuild(t, args)
		}
		memo[t] = r
		return r
	}
	return rec(t)
}

func (b *Builder) rebuild(t *Term, a []*Term) *Term {
	switch t.op {
	case "not":
		return b.Not(a[0])
	case "and":
		return b.And(a...)
	case "or":
		return b.Or(a...)
	case "=>":
		return b.Implies(a[0], a[1])
	case "ite":
		return b.Ite(a[0], a[1], a[2])
	case "=":
		return b.Eq(a[0], a[1])
	case "<=":
		return b.Le(a[0], a[1])
	case "<":
		return b.Lt(a[0], a[1])
	case "+":
		return b.Add(a...)
	case "-":
		return b.Sub(a[0], a[1])
	case "*":
		return b.Mul(a[0], a[1])
	case "div":
		return b.Div(a[0], a[1])
	case "mod":
		return b.Mod(a[0], a[1])
	case "select":
		return b.Select(a[0], a[1])
	case "store":
		return b.Store(a[0], a[1], a[2])
	case "constarr":
		return b.ConstArr(t.sort, a[0])
	case "forall":
		return b.Forall(a[1:], a[0])
	case "exists":
		return b.Exists(a[1:], a[0])
	}
	if strings.HasPrefix(t.op, "app:") {
		return b.App(t.op[4:], a...)
	}
	panic("rebuild: " + t.op)
}

// ---------------------------------------------------------------- printing

func (b *Builder) Show(t *Term) string {
	var sb strings.Builder
	b.print(&sb, t, nil)
	s := sb.String()
	if len(s) > 400 {
		s = s[:400] + "…"
	}
	return s
}

func (b *Builder) print(sb *strings.Builder, t *Term, names map[*Term]string) {
	if n, ok := names[t]; ok {
		sb.WriteString(n)
		return
	}
	switch t.op {
	case "const":
		if t.ival.Sign() < 0 {
			sb.WriteString("(- ")
			sb.WriteString(new(big.Int).Neg(t.ival).String())
			sb.WriteString(")")
		} else {
			sb.WriteString(t.ival.String())
		}
	case "true", "false":
		sb.WriteString(t.op)
	case "var", "bvar":
		sb.WriteString("|" + t.name + "|")
	case "constarr":
		fmt.Fprintf(sb, "((as const %s) ", t.sort)
		b.print(sb, t.args[0], names)
		sb.WriteString(")")
	case "forall", "exists":
		sb.WriteString("(" + t.op + " (")
		for _, v := range t.args[1:] {
			fmt.Fprintf(sb, "(|%s| %s)", v.name, v.sort)
		}
		sb.WriteString(") ")
		b.print(sb, t.args[0], names)
		sb.WriteString(")")
	default:
		op := t.op
		if strings.HasPrefix(op, "app:") {
			op = op[4:]
			if len(t.args) == 0 {
				sb.WriteString(op)
				return
			}
		}
		sb.WriteString("(" + op)
		for _, a := range t.args {
			sb.WriteByte(' ')
			b.print(sb, a, names)
		}
		sb.WriteString(")")
	}
}

// Query renders a complete SMT-LIB2 script asserting all of asserts; shared
// non-bound subterms become define-funs so the text stays linear in DAG size.
func (b *Builder) Query(asserts []*Term, getValues []*Term) string {
	// collect reachable terms, count references
	refs := map[*Term]int{}
	var order []*Term
	var walk func(t *Term)
	walk = func(t *Term) {
		refs[t]++
		if refs[t] > 1 {
			return
		}
		for _, a := range t.args {
			walk(a)
		}
		order = append(order, t) // post-order: children first
	}
	for _, a := range asserts {
		walk(a)
	}
	for _, a := range getValues {
		walk(a)
	}
	var sb strings.Builder
	sb.WriteString("(set-option :produce-models true)\n(set-logic ALL)\n")
	usedVars := map[*Term]bool{}
	usedFuncs := map[string]bool{}
	for _, t := range order {
		if t.op == "var" {
			usedVars[t] = true
		}
		if strings.HasPrefix(t.op, "app:") {
			usedFuncs[t.op[4:]] = true
		}
	}
	// function definitions may reference other functions: include all earlier-registered
	// definitions that a used one mentions (cheap textual closure).
	changed := true
	for changed {
		changed = false
		for _, f := range b.forder {
			if !usedFuncs[f.name] || f.body == "" {
				continue
			}
			for _, g := range b.forder {
				if !usedFuncs[g.name] && g.order < f.order && strings.Contains(f.body, g.name) {
					usedFuncs[g.name] = true
					changed = true
				}
			}
		}
	}
	for _, v := range b.vorder {
		if usedVars[v] {
			fmt.Fprintf(&sb, "(declare-const |%s| %s)\n", v.name, v.sort)
		}
	}
	for _, f := range b.forder {
		if !usedFuncs[f.name] {
			continue
		}
		if f.body == "" {
			fmt.Fprintf(&sb, "(declare-fun %s (", f.name)
			for i, p := range f.params {
				if i > 0 {
					sb.WriteByte(' ')
				}
				sb.WriteString(p.String())
			}
			fmt.Fprintf(&sb, ") %s)\n", f.ret)
		} else {
			fmt.Fprintf(&sb, "(define-fun %s (", f.name)
			for i, p := range f.params {
				fmt.Fprintf(&sb, "(p%d %s)", i, p)
			}
			fmt.Fprintf(&sb, ") %s %s)\n", f.ret, f.body)
		}
	}
	names := map[*Term]string{}
	for _, t := range order {
		if len(t.args) == 0 || t.bound || refs[t] < 2 {
			continue
		}
		if t.op == "constarr" {
			continue
		}
		var body strings.Builder
		b.print(&body, t, names)
		n := fmt.Sprintf("n%d", t.id)
		fmt.Fprintf(&sb, "(define-fun %s () %s %s)\n", n, t.sort, body.String())
		names[t] = n
	}
	for _, a := range asserts {
		sb.WriteString("(assert ")
		b.print(&sb, a, names)
		sb.WriteString(")\n")
	}
	sb.WriteString("(check-sat)\n")
	if len(getValues) > 0 {
		sb.WriteString("(get-value (")
		for _, v := range getValues {
			b.print(&sb, v, names)
			sb.WriteByte(' ')
		}
		sb.WriteString("))\n")
	}
	return sb.String()
}

// tableFun registers an Int->Int (or Int->Bool) constant table as a defined function.
func (b *Builder) tableFun(name string, vals []*big.Int, isBool bool) string {
	name = sanitize("tbl_" + name)
	if _, ok := b.funcs[name]; ok {
		return name
	}
	ret := SInt
	if isBool {
		ret = SBool
	}
	lit := func(v *big.Int) string {
		if isBool {
			if v.Sign() != 0 {
				return "true"
			}
			return "false"
		}
		if v.Sign() < 0 {
			return "(- " + new(big.Int).Neg(v).String() + ")"
		}
		return v.String()
	}
	// balanced ite tree over the index
	var gen func(lo, hi int) string
	gen = func(lo, hi int) string {
		if lo == hi {
			return lit(vals[lo])
		}
		// collapse uniform ranges
		same := true
		for i := lo + 1; i <= hi; i++ {
			if vals[i].Cmp(vals[lo]) != 0 {
				same = false
				break
			}
		}
		if same {
			return lit(vals[lo])
		}
		mid := (lo + hi) / 2
		return fmt.Sprintf("(ite (<= p0 %d) %s %s)", mid, gen(lo, mid), gen(mid+1, hi))
	}
	body := lit(big.NewInt(0))
	if len(vals) > 0 {
		body = gen(0, len(vals)-1)
	}
	cp := make([]*big.Int, len(vals))
	copy(cp, vals)
	b.DefineFun(name, []Sort{SInt}, ret, body, func(args []*Term) *Term {
		if args[0].IsConst() && args[0].ival.IsInt64() {
			i := args[0].ival.Int64()
			if i >= 0 && int(i) < len(cp) {
				if isBool {
					return b.Bool(cp[i].Sign() != 0)
				}
				return b.Big(cp[i])
			}
		}
		return nil
	})
	return name
}

func sortedKeys[V any](m map[string]V) []string {
	ks := make([]string, 0, len(m))
	for k := range m {
		ks = append(ks, k)
	}
	sort.Strings(ks)
	return ks
}
