#!/bin/bash
# Re-runs the framework part of every stored seed (must-fail corpus): each patch is applied to /repo,
# the property's quick check must report a violation, /repo is reverted. Prints one line per seed.
cd /verif
for d in seeded/*/; do
  name=$(basename $d)
  prop=$(python3 -c "import json;print(json.load(open('$d/meta.json'))['property'])")
  if ! git -C /repo apply --check /verif/$d/patch.diff 2>/dev/null; then echo "$name $prop PATCH-DOES-NOT-APPLY"; continue; fi
  out=$(./seedcheck.sh $name $prop 2>&1 | tail -1)
  n=$(grep -c "^VIOLATION" $d/recheck.log)
  echo "$name $prop violations=$n $out"
done
