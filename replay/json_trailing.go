package json

// Replay for the trailing-data obligations (C05): a valid value followed by the
// model's trailing bytes must be rejected exactly when encoding/json rejects it.

import (
	stdjson "encoding/json"
	"encoding/json"
	"fmt"
	"os"
	"strconv"
	"testing"
)

//PRELUDE

func TestGovcReplay(t *testing.T) {
	m := govcModel()
	src := m.Bytes("src", ' ', 64)
	c := int(m.Int("cursor", 0))
	if c < 0 || c > len(src) {
		c = 0
	}
	tail := src[c:]
	if len(tail) > 0 && tail[len(tail)-1] == 0 {
		tail = tail[:len(tail)-1] // the terminator of the private copy is not part of the input
	}
	doc := append([]byte("1"), tail...)
	fmt.Printf("REPLAY-INPUT: document %q\n", doc)
	var a, b interface{}
	errGo := Unmarshal(doc, &a)
	errStd := stdjson.Unmarshal(doc, &b)
	fmt.Printf("REPLAY-RESULT: go-json err=%v valid=%v; encoding/json err=%v valid=%v\n", errGo, Valid(doc), errStd, stdjson.Valid(doc))
	if (errGo == nil) != (errStd == nil) || Valid(doc) != stdjson.Valid(doc) {
		fmt.Printf("REPLAY-CONFIRMED: %q: go-json and encoding/json disagree on acceptance\n", doc)
		return
	}
	fmt.Println("REPLAY-NOT-REPRODUCED")
}

var _ = json.Marshal
var _ = os.Getenv
var _ = strconv.Itoa
