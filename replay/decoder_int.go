package decoder

// Replay for the integer literal functions (C16): feeds the model's literal to
// the real code, at function level and through the public decoding entry, and
// compares with exact big-integer arithmetic.

import (
	"encoding/json"
	"fmt"
	"math/big"
	"os"
	"reflect"
	"strconv"
	"strings"
	"testing"
	"unsafe"

	"github.com/goccy/go-json/internal/runtime"
)

//PRELUDE

// govcStreamBoundaries: the stream twins (DecodeStream) are replayed on the boundary literals of every
// destination width: a literal outside the range must be an error, one inside must be stored exactly.
func govcStreamBoundaries() bool {
	type tc struct {
		kind reflect.Type
		bits uint
	}
	confirmed := false
	for _, c := range []tc{{reflect.TypeOf(int8(0)), 8}, {reflect.TypeOf(int16(0)), 16}, {reflect.TypeOf(int32(0)), 32}, {reflect.TypeOf(int64(0)), 64}} {
		lim := new(big.Int).Lsh(big.NewInt(1), c.bits-1)
		for _, v := range []*big.Int{new(big.Int).Sub(lim, big.NewInt(1)), lim, new(big.Int).Add(lim, big.NewInt(1)), new(big.Int).Neg(lim), new(big.Int).Sub(new(big.Int).Neg(lim), big.NewInt(1))} {
			lit := v.String()
			var x int64
			d := newIntDecoder(runtime.Type2RType(c.kind), "", "", func(p unsafe.Pointer, v int64) { *(*int64)(p) = v })
			s := NewStream(strings.NewReader(lit))
			s.read()
			err := d.DecodeStream(s, 0, unsafe.Pointer(&x))
			fits := v.Cmp(lim) < 0 && v.Cmp(new(big.Int).Neg(lim)) >= 0
			if err == nil && (!fits || big.NewInt(x).Cmp(v) != 0) {
				fmt.Printf("REPLAY-CONFIRMED: stream decoding of %s into %v stores %d without error\n", lit, c.kind, x)
				confirmed = true
			}
		}
	}
	for _, c := range []tc{{reflect.TypeOf(uint8(0)), 8}, {reflect.TypeOf(uint16(0)), 16}, {reflect.TypeOf(uint32(0)), 32}, {reflect.TypeOf(uint64(0)), 64}} {
		lim := new(big.Int).Lsh(big.NewInt(1), c.bits)
		for _, v := range []*big.Int{new(big.Int).Sub(lim, big.NewInt(1)), lim, new(big.Int).Add(lim, big.NewInt(1))} {
			lit := v.String()
			var x uint64
			d := newUintDecoder(runtime.Type2RType(c.kind), "", "", func(p unsafe.Pointer, v uint64) { *(*uint64)(p) = v })
			s := NewStream(strings.NewReader(lit))
			s.read()
			err := d.DecodeStream(s, 0, unsafe.Pointer(&x))
			fits := v.Cmp(lim) < 0
			if err == nil && (!fits || new(big.Int).SetUint64(x).Cmp(v) != 0) {
				fmt.Printf("REPLAY-CONFIRMED: stream decoding of %s into %v stores %d without error\n", lit, c.kind, x)
				confirmed = true
			}
		}
	}
	return confirmed
}

func TestGovcReplay(t *testing.T) {
	m := govcModel()
	if strings.HasSuffix(m.Function, "DecodeStream") {
		fmt.Println("REPLAY-INPUT: boundary literals of every integer width through DecodeStream")
		if !govcStreamBoundaries() {
			fmt.Println("REPLAY-NOT-REPRODUCED")
		}
		return
	}
	lit := m.Bytes("b", '0', 64)
	method := m.Function[strings.LastIndex(m.Function, ".")+1:]
	if method == "Decode" || method == "decodeByte" {
		lit = m.Bytes("buf", 0, 64)
		if c := int(m.Int("cursor", 0)); c > 0 && c < len(lit) {
			lit = lit[c:]
		}
		if i := strings.IndexByte(string(lit), 0); i >= 0 {
			lit = lit[:i]
		}
	}
	fmt.Printf("REPLAY-INPUT: literal %q\n", lit)
	signed := !strings.Contains(m.Function, "uint")
	var got int64
	var gotU uint64
	var err error
	var x int64
	var ux uint64
	// full decoder path on the real code: scanner + parser + range check
	buf := append(append([]byte{}, lit...), 0)
	if signed {
		d := newIntDecoder(runtime.Type2RType(reflect.TypeOf(int64(0))), "", "", func(p unsafe.Pointer, v int64) { *(*int64)(p) = v })
		_, err = d.Decode(&RuntimeContext{Buf: buf, Option: &Option{}}, 0, 0, unsafe.Pointer(&x))
		got = x
	} else {
		d := newUintDecoder(runtime.Type2RType(reflect.TypeOf(uint64(0))), "", "", func(p unsafe.Pointer, v uint64) { *(*uint64)(p) = v })
		_, err = d.Decode(&RuntimeContext{Buf: buf, Option: &Option{}}, 0, 0, unsafe.Pointer(&ux))
		gotU = ux
	}
	want, okLit := new(big.Int).SetString(string(lit), 10)
	wellFormed := okLit && jsonInt(string(lit))
	fmt.Printf("REPLAY-RESULT: err=%v got=%d gotU=%d wellformed=%v\n", err, got, gotU, wellFormed)
	if err != nil {
		fmt.Println("REPLAY-NOT-REPRODUCED: the real code reports an error for this literal")
		return
	}
	if !wellFormed {
		fmt.Printf("REPLAY-CONFIRMED: %q is not a JSON integer but decodes without error\n", lit)
		return
	}
	if signed {
		if !want.IsInt64() || want.Int64() != got {
			fmt.Printf("REPLAY-CONFIRMED: %q decodes to %d without error (exact value %s)\n", lit, got, want)
			return
		}
	} else {
		if !want.IsUint64() || want.Uint64() != gotU {
			fmt.Printf("REPLAY-CONFIRMED: %q decodes to %d without error (exact value %s)\n", lit, gotU, want)
			return
		}
	}
	fmt.Println("REPLAY-NOT-REPRODUCED: exact value stored")
}

func jsonInt(s string) bool {
	if strings.HasPrefix(s, "-") {
		s = s[1:]
	}
	if s == "" {
		return false
	}
	if s[0] == '0' {
		return len(s) == 1
	}
	for _, c := range s {
		if c < '0' || c > '9' {
			return false
		}
	}
	return true
}

var _ = os.Getenv
var _ = json.Marshal
var _ = strconv.Itoa
