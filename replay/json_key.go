package json

// Replay for the bitmap key scanners (C15): the key spelled in the model's buffer
// is decoded into struct types whose field names are the decoded key, a proper
// prefix and an extension of it, and the field that receives the value is
// compared with encoding/json.

import (
	"bytes"
	stdjson "encoding/json"
	"encoding/json"
	"fmt"
	"os"
	"reflect"
	"strconv"
	"testing"
)

//PRELUDE

func TestGovcReplay(t *testing.T) {
	m := govcModel()
	buf := m.Bytes("buf", 'a', 64)
	c := int(m.Int("cursor", 0))
	if c < 0 || c > len(buf) {
		c = 0
	}
	frag := buf[c:]
	if i := bytes.IndexByte(frag, 0); i >= 0 {
		frag = frag[:i]
	}
	// the key: from the first quote to the next unescaped quote
	i := bytes.IndexByte(frag, '"')
	if i < 0 {
		fmt.Println("REPLAY-NOT-REPRODUCED: the model's buffer holds no key")
		return
	}
	j := i + 1
	for j < len(frag) && frag[j] != '"' {
		if frag[j] == '\\' {
			j++
		}
		j++
	}
	if j >= len(frag) {
		fmt.Println("REPLAY-NOT-REPRODUCED: unterminated key in the model's buffer")
		return
	}
	raw := frag[i : j+1]
	doc := append(append([]byte("{"), raw...), []byte(":7}")...)
	fmt.Printf("REPLAY-INPUT: document %s\n", doc)
	var key string
	if err := stdjson.Unmarshal(raw, &key); err != nil {
		key = "k"
	}
	names := [][]string{{key}, {key + "x"}, {key, key + "x"}}
	if len(key) > 1 {
		names = append(names, []string{key[:len(key)-1]}, []string{key[:len(key)-1], key})
	}
	for _, ns := range names {
		var fs []reflect.StructField
		ok := true
		for k, n := range ns {
			if n == "" || bytes.ContainsAny([]byte(n), "\",`\\: ") {
				ok = false
			}
			fs = append(fs, reflect.StructField{Name: fmt.Sprintf("F%d", k), Type: reflect.TypeOf(0), Tag: reflect.StructTag(`json:"` + n + `"`)})
		}
		if !ok {
			continue
		}
		typ := reflect.StructOf(fs)
		want, got := reflect.New(typ), reflect.New(typ)
		e1 := stdjson.Unmarshal(doc, want.Interface())
		e2 := Unmarshal(doc, got.Interface())
		fmt.Printf("REPLAY-RESULT: names=%q go-json=%v err=%v encoding/json=%v err=%v\n", ns, got.Elem().Interface(), e2, want.Elem().Interface(), e1)
		if (e1 == nil) != (e2 == nil) || (e1 == nil && !reflect.DeepEqual(want.Elem().Interface(), got.Elem().Interface())) {
			fmt.Printf("REPLAY-CONFIRMED: key %s selects a different field than encoding/json for names %q\n", raw, ns)
			return
		}
	}
	fmt.Println("REPLAY-NOT-REPRODUCED")
}

var _ = json.Marshal
var _ = os.Getenv
var _ = strconv.Itoa
