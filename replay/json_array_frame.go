package json

// Replay for the array decoder's frame obligations (C07): decoding a short
// JSON array into a fixed-size Go array must not touch the neighbouring field,
// and must zero the remaining elements completely.

import (
	"encoding/json"
	"fmt"
	"os"
	"strconv"
	"testing"
)

//PRELUDE

func TestGovcReplay(t *testing.T) {
	_ = govcModel()
	type small struct {
		A [3]uint8
		B [8]uint8
	}
	v := small{A: [3]uint8{9, 9, 9}, B: [8]uint8{1, 2, 3, 4, 5, 6, 7, 8}}
	err := Unmarshal([]byte(`{"A":[1]}`), &v)
	fmt.Printf("REPLAY-RESULT: element size 1: err=%v A=%v B=%v (B must stay [1 2 3 4 5 6 7 8])\n", err, v.A, v.B)
	bad := v.B != [8]uint8{1, 2, 3, 4, 5, 6, 7, 8} || v.A != [3]uint8{1, 0, 0}
	type wide struct{ X, Y, Z int64 }
	type big struct{ A [2]wide }
	w := big{A: [2]wide{{1, 2, 3}, {4, 5, 6}}}
	err = Unmarshal([]byte(`{"A":[]}`), &w)
	fmt.Printf("REPLAY-RESULT: element size 24: err=%v A=%v (must be all zero)\n", err, w.A)
	if w.A != [2]wide{} {
		bad = true
	}
	if bad {
		fmt.Println("REPLAY-CONFIRMED: the zero fill of a short array writes 8 bytes per element whatever the element size")
		return
	}
	fmt.Println("REPLAY-NOT-REPRODUCED")
}

var _ = json.Marshal
var _ = os.Getenv
var _ = strconv.Itoa
