package json

// Replay for the json.Number validator (C03): the model's literal is encoded as a
// json.Number and the verdict compared with encoding/json (which validates the
// literal against the JSON number grammar).

import (
	stdjson "encoding/json"
	"encoding/json"
	"fmt"
	"os"
	"strconv"
	"testing"
)

//PRELUDE

func TestGovcReplay(t *testing.T) {
	m := govcModel()
	lit := m.Bytes("s", '0', 40)
	if len(lit) == 0 {
		lit = m.Bytes("n", '0', 40)
	}
	cands := []string{string(lit), "1e", "--", ".", "01", "1.", "-", "+1", "1e+", "0x1"}
	fmt.Printf("REPLAY-INPUT: json.Number literals %q (the first is the model's)\n", cands)
	for _, c := range cands {
		if c == "" {
			continue
		}
		out, err := Marshal(Number(c))
		_, errStd := stdjson.Marshal(stdjson.Number(c))
		fmt.Printf("REPLAY-RESULT: %q -> %q err=%v; encoding/json err=%v\n", c, out, err, errStd)
		if err == nil && (errStd != nil || !stdjson.Valid(out)) {
			fmt.Printf("REPLAY-CONFIRMED: json.Number(%q) is encoded as %q without error\n", c, out)
			return
		}
	}
	fmt.Println("REPLAY-NOT-REPRODUCED")
}

var _ = json.Marshal
var _ = os.Getenv
var _ = strconv.Itoa
