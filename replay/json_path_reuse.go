package json

// Replay for the Path purity obligations (C11/C20): a Path must behave the same
// after an extraction that failed as a freshly built one.

import (
	"encoding/json"
	"fmt"
	"os"
	"strconv"
	"strings"
	"testing"
)

//PRELUDE

func TestGovcReplay(t *testing.T) {
	m := govcModel()
	spec, bad, good := "$.a.b", `{"a":{"b":x}}`, `{"a":{"b":1}}`
	if strings.Contains(m.Function, "sliceDecoder") {
		spec, bad, good = "$[0][0]", `[[x]]`, `[[1]]`
	}
	fresh, _ := CreatePath(spec)
	want, werr := fresh.Extract([]byte(good))
	p, _ := CreatePath(spec)
	_, e1 := p.Extract([]byte(bad))
	got, e2 := p.Extract([]byte(good))
	fmt.Printf("REPLAY-INPUT: path %s, first document %s (error %v), then %s\n", spec, bad, e1, good)
	fmt.Printf("REPLAY-RESULT: fresh path -> %q (%v); reused path -> %q (%v)\n", want, werr, got, e2)
	if fmt.Sprint(want, werr) != fmt.Sprint(got, e2) {
		fmt.Println("REPLAY-CONFIRMED: after a failed extraction the same Path gives a different answer than a fresh one")
		return
	}
	fmt.Println("REPLAY-NOT-REPRODUCED")
}

var _ = json.Marshal
var _ = os.Getenv
var _ = strconv.Itoa
