package json

// Replay for the integer round-trip obligations (C04, C16): every width and signedness is encoded and
// decoded again for boundary values, powers of ten and their neighbours, and a seeded random sample;
// the text must be strconv's and the decoded value the original.

import (
	"encoding/json"
	"fmt"
	"math/rand"
	"os"
	"reflect"
	"strconv"
	"testing"
)

//PRELUDE

func TestGovcReplay(t *testing.T) {
	_ = govcModel()
	var us []uint64
	for e := uint64(1); ; e *= 10 {
		us = append(us, e-1, e, e+1, e*9, e*99/10)
		if e > 1000000000000000000 {
			break
		}
	}
	for w := uint(7); w <= 64; w += 1 {
		v := uint64(1)<<(w%64) - 1
		us = append(us, v, v+1, v-1)
	}
	rng := rand.New(rand.NewSource(1))
	for i := 0; i < 2000; i++ {
		us = append(us, rng.Uint64()>>uint(rng.Intn(64)))
	}
	fmt.Printf("REPLAY-INPUT: %d unsigned magnitudes x {uint8,16,32,64,int8,16,32,64 (both signs)}\n", len(us))
	check := func(v interface{}, want string, p interface{}) bool {
		out, err := Marshal(v)
		if err != nil || string(out) != want {
			fmt.Printf("REPLAY-CONFIRMED: Marshal(%T %v) = %q, %v; want %q\n", v, v, out, err, want)
			return true
		}
		if err := Unmarshal(out, p); err != nil || !reflect.DeepEqual(reflect.ValueOf(p).Elem().Interface(), v) {
			fmt.Printf("REPLAY-CONFIRMED: Unmarshal(%q) into %T = %v, %v; want %v\n", out, v, reflect.ValueOf(p).Elem().Interface(), err, v)
			return true
		}
		return false
	}
	for _, u := range us {
		bad := check(uint8(u), strconv.FormatUint(uint64(uint8(u)), 10), new(uint8)) ||
			check(uint16(u), strconv.FormatUint(uint64(uint16(u)), 10), new(uint16)) ||
			check(uint32(u), strconv.FormatUint(uint64(uint32(u)), 10), new(uint32)) ||
			check(u, strconv.FormatUint(u, 10), new(uint64)) ||
			check(int8(u), strconv.FormatInt(int64(int8(u)), 10), new(int8)) ||
			check(int16(u), strconv.FormatInt(int64(int16(u)), 10), new(int16)) ||
			check(int32(u), strconv.FormatInt(int64(int32(u)), 10), new(int32)) ||
			check(int64(u), strconv.FormatInt(int64(u), 10), new(int64)) ||
			check(-int64(u), strconv.FormatInt(-int64(u), 10), new(int64))
		if bad {
			return
		}
	}
	fmt.Println("REPLAY-NOT-REPRODUCED")
}

var _ = json.Marshal
var _ = os.Getenv
