package decoder

// Replay for the escape helpers of the struct key scanners (C15): calls the real
// helper on the model's buffer and evaluates the position contract in Go
// ("on success the returned cursor is the index of the LAST byte of the escape
// sequence, inside the buffer; an unknown escape character is an error").

import (
	"encoding/json"
	"fmt"
	"os"
	"strconv"
	"strings"
	"testing"
)

//PRELUDE

func govcSimpleEsc(c byte) bool { return strings.IndexByte(`"\/bfnrt`, c) >= 0 }

func TestGovcReplay(t *testing.T) {
	m := govcModel()
	buf := m.Bytes("buf", 'a', 64)
	if len(buf) == 0 || buf[len(buf)-1] != 0 {
		buf = append(buf, 0)
	}
	cursor := m.Int("cursor", 0)
	if cursor < 0 || cursor >= int64(len(buf)) {
		cursor = 0
	}
	fmt.Printf("REPLAY-INPUT: buf=%q cursor=%d\n", buf, cursor)
	name := m.Function[strings.LastIndex(m.Function, ".")+1:]
	switch name {
	case "decodeKeyCharByEscapedChar", "decodeKeyCharByUnicodeRune":
		var chars []byte
		var c int64
		var err error
		e := buf[cursor]
		if name == "decodeKeyCharByEscapedChar" {
			chars, c, err = decodeKeyCharByEscapedChar(buf, cursor)
		} else {
			chars, c, err = decodeKeyCharByUnicodeRune(buf, cursor)
		}
		fmt.Printf("REPLAY-RESULT: chars=%q c=%d err=%v\n", chars, c, err)
		switch {
		case err == nil && (c < cursor || c >= int64(len(buf))-1):
			fmt.Printf("REPLAY-CONFIRMED: returned cursor %d is outside [%d, %d)\n", c, cursor, len(buf)-1)
		case err == nil && (len(chars) < 1 || len(chars) > 4):
			fmt.Printf("REPLAY-CONFIRMED: success with %d decoded bytes\n", len(chars))
		case name == "decodeKeyCharByEscapedChar" && err == nil && govcSimpleEsc(e) && (c != cursor || len(chars) != 1):
			fmt.Printf("REPLAY-CONFIRMED: simple escape \\%c at %d returns cursor %d (the byte after it would be skipped) and %d bytes\n", e, cursor, c, len(chars))
		case name == "decodeKeyCharByEscapedChar" && err == nil && !govcSimpleEsc(e) && e != 'u':
			fmt.Printf("REPLAY-CONFIRMED: unknown escape character %q accepted\n", e)
		default:
			fmt.Println("REPLAY-NOT-REPRODUCED")
		}
	default:
		fmt.Println("REPLAY-NOT-REPRODUCED: no function-level replay for " + name)
	}
}

var _ = json.Marshal
var _ = os.Getenv
var _ = strconv.Itoa
