package json

// Replay for the UnmarshalJSON dispatch obligations (C06): types that implement only one of the
// two UnmarshalJSON forms are decoded through both the context-free and the context entry points;
// a panic confirms the violation.

import (
	"context"
	"encoding/json"
	"fmt"
	"os"
	"strconv"
	"testing"
	"time"
)

//PRELUDE

type govcOnlyCtx struct{ V int }

func (o *govcOnlyCtx) UnmarshalJSON(ctx context.Context, b []byte) error { o.V = len(b); return nil }

type govcOnlyStd struct{ V int }

func (o *govcOnlyStd) UnmarshalJSON(b []byte) error { o.V = len(b); return nil }

func TestGovcReplay(t *testing.T) {
	_ = govcModel()
	confirmed := false
	try := func(name string, f func() error) {
		defer func() {
			if r := recover(); r != nil {
				fmt.Printf("REPLAY-CONFIRMED: %s panics: %v\n", name, r)
				confirmed = true
			}
		}()
		fmt.Printf("REPLAY-RESULT: %s: err=%v\n", name, f())
	}
	fmt.Println("REPLAY-INPUT: types with only one UnmarshalJSON form, through Unmarshal and UnmarshalContext")
	try("Unmarshal into a type with only UnmarshalJSON(ctx, []byte)", func() error { var v govcOnlyCtx; return Unmarshal([]byte(`{"a":1}`), &v) })
	try("UnmarshalContext into a type with only UnmarshalJSON([]byte)", func() error {
		var v govcOnlyStd
		return UnmarshalContext(context.Background(), []byte(`{"a":1}`), &v)
	})
	try("UnmarshalContext into struct{T time.Time}", func() error {
		var v struct{ T time.Time }
		return UnmarshalContext(context.Background(), []byte(`{"T":"2020-01-01T00:00:00Z"}`), &v)
	})
	if !confirmed {
		fmt.Println("REPLAY-NOT-REPRODUCED")
	}
}

var _ = json.Marshal
var _ = os.Getenv
var _ = strconv.Itoa
