package decoder

// Replay for the type-cache index obligation (C14): place the cached address
// window just above a real type descriptor (exactly what the model says: a
// type address below BaseTypeAddr) and call the real function.

import (
	"encoding/json"
	"fmt"
	"os"
	"reflect"
	"strconv"
	"testing"
	"unsafe"

	"github.com/goccy/go-json/internal/runtime"
)

//PRELUDE

func TestGovcReplay(t *testing.T) {
	m := govcModel()
	typ := runtime.Type2RType(reflect.TypeOf(new(int)))
	addr := uintptr(unsafe.Pointer(typ))
	initDecoder()
	saveTA, saveCD := typeAddr, cachedDecoder
	defer func() { typeAddr, cachedDecoder = saveTA, saveCD }()
	typeAddr = &runtime.TypeAddr{BaseTypeAddr: addr + 64, MaxTypeAddr: addr + 64 + 1024, AddrRange: 1024, AddrShift: 0}
	cachedDecoder = make([]Decoder, 1025)
	fmt.Printf("REPLAY-INPUT: type descriptor at %#x, cached window [%#x, %#x] (model: %v)\n", addr, typeAddr.BaseTypeAddr, typeAddr.MaxTypeAddr, m.Values["typ"])
	defer func() {
		if r := recover(); r != nil {
			fmt.Printf("REPLAY-CONFIRMED: CompileToGetDecoder panics for a type below the cached window: %v\n", r)
			return
		}
	}()
	dec, err := CompileToGetDecoder(typ)
	fmt.Printf("REPLAY-RESULT: dec=%v err=%v\n", dec != nil, err)
	fmt.Println("REPLAY-NOT-REPRODUCED")
}

var _ = json.Marshal
var _ = os.Getenv
var _ = strconv.Itoa
