package json

// Replay for lemma L-num (C05 / C18 / C03): the witness literal is fed to the
// real entry points and compared with encoding/json.

import (
	"bytes"
	stdjson "encoding/json"
	"encoding/json"
	"fmt"
	"os"
	"strconv"
	"strings"
	"testing"
)

//PRELUDE

func TestGovcReplay(t *testing.T) {
	m := govcModel()
	lits := []string{}
	if l, ok := m.Values["literal"]; ok && l != "" {
		lits = append(lits, l)
	} else {
		// function obligations: the token the model's buffer spells, then a fixed corpus of near-numbers
		for _, name := range []string{"b", "buf", "src"} {
			b := m.Bytes(name, '0', 40)
			c := int(m.Int("cursor", 0))
			if c < 0 || c > len(b) {
				c = 0
			}
			b = b[c:]
			if i := bytes.IndexByte(b, 0); i >= 0 {
				b = b[:i]
			}
			if len(b) > 0 {
				lits = append(lits, string(b))
			}
		}
		lits = append(lits, "01", "00", "1.", "-.5", "0.e1", ".5", "1e", "-", "1.e2", "-01", "1e+", "+1")
	}
	fmt.Printf("REPLAY-INPUT: literals %q (%s)\n", lits, m.Function)
	for _, lit := range lits {
		if govcNumberReplay(m.Function, lit) {
			fmt.Printf("REPLAY-CONFIRMED: %q is accepted by go-json but is not an RFC 8259 number\n", lit)
			return
		}
	}
	fmt.Println("REPLAY-NOT-REPRODUCED")
}

func govcNumberReplay(function, lit string) bool {
	doc := []byte(lit)
	bad := false
	if strings.Contains(function, "AppendNumber") || strings.Contains(function, "isValidNumber(") || strings.HasSuffix(function, "isValidNumber") {
		out, err := Marshal(Number(lit))
		fmt.Printf("REPLAY-RESULT: Marshal(json.Number(%q)) = %q, %v; valid JSON per encoding/json: %v\n", lit, out, err, stdjson.Valid(out))
		if err == nil && !stdjson.Valid(out) {
			bad = true
		}
	} else if strings.Contains(function, "compactNumber") {
		var b1, b2 bytes.Buffer
		e1 := Compact(&b1, doc)
		e2 := stdjson.Compact(&b2, doc)
		fmt.Printf("REPLAY-RESULT: Compact(%q) go-json err=%v, encoding/json err=%v\n", lit, e1, e2)
		if e1 == nil && e2 != nil {
			bad = true
		}
	} else {
		var a, b interface{}
		var f1, f2 float64
		var n1 Number
		var n2 stdjson.Number
		e1, e2 := Unmarshal(doc, &a), stdjson.Unmarshal(doc, &b)
		e3, e4 := Unmarshal(doc, &f1), stdjson.Unmarshal(doc, &f2)
		e5, e6 := Unmarshal(doc, &n1), stdjson.Unmarshal(doc, &n2)
		// a number in a member the destination ignores
		wrapped := []byte(`{"zz":` + lit + `}`)
		var s1, s2 struct{ A int }
		e7, e8 := Unmarshal(wrapped, &s1), stdjson.Unmarshal(wrapped, &s2)
		fmt.Printf("REPLAY-RESULT: %q Valid go=%v std=%v; interface{} go err=%v std err=%v; float64 go err=%v std err=%v; Number go err=%v std err=%v; ignored member go err=%v std err=%v\n",
			lit, Valid(doc), stdjson.Valid(doc), e1, e2, e3, e4, e5, e6, e7, e8)
		if (Valid(doc) && !stdjson.Valid(doc)) || (e1 == nil && e2 != nil) || (e3 == nil && e4 != nil) || (e5 == nil && e6 != nil) || (e7 == nil && e8 != nil) {
			bad = true
		}
	}
	return bad
}

var _ = json.Marshal
var _ = os.Getenv
var _ = strconv.Itoa
