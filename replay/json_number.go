package json

// Replay for lemma L-num (C05 / C18 / C03): the witness literal is fed to the
// real entry points and compared with encoding/json.

import (
	"bytes"
	stdjson "encoding/json"
	"encoding/json"
	"fmt"
	"os"
	"strconv"
	"strings"
	"testing"
)

//PRELUDE

func TestGovcReplay(t *testing.T) {
	m := govcModel()
	lit := m.Values["literal"]
	fmt.Printf("REPLAY-INPUT: literal %q (%s)\n", lit, m.Function)
	doc := []byte(lit)
	bad := false
	if strings.Contains(m.Function, "AppendNumber") {
		out, err := Marshal(Number(lit))
		fmt.Printf("REPLAY-RESULT: Marshal(json.Number(%q)) = %q, %v; valid JSON per encoding/json: %v\n", lit, out, err, stdjson.Valid(out))
		if err == nil && !stdjson.Valid(out) {
			bad = true
		}
	} else if strings.Contains(m.Function, "compactNumber") {
		var b1, b2 bytes.Buffer
		e1 := Compact(&b1, doc)
		e2 := stdjson.Compact(&b2, doc)
		fmt.Printf("REPLAY-RESULT: Compact go-json err=%v, encoding/json err=%v\n", e1, e2)
		if (e1 == nil) != (e2 == nil) {
			bad = true
		}
	} else {
		var a, b interface{}
		var f1, f2 float64
		e1, e2 := Unmarshal(doc, &a), stdjson.Unmarshal(doc, &b)
		e3, e4 := Unmarshal(doc, &f1), stdjson.Unmarshal(doc, &f2)
		fmt.Printf("REPLAY-RESULT: Valid go=%v std=%v; interface{} go err=%v std err=%v; float64 go err=%v std err=%v\n", Valid(doc), stdjson.Valid(doc), e1, e2, e3, e4)
		if Valid(doc) != stdjson.Valid(doc) || (e1 == nil) != (e2 == nil) || (e3 == nil) != (e4 == nil) {
			bad = true
		}
	}
	if bad {
		fmt.Printf("REPLAY-CONFIRMED: %q is accepted by go-json but is not an RFC 8259 number\n", lit)
		return
	}
	fmt.Println("REPLAY-NOT-REPRODUCED")
}

var _ = json.Marshal
var _ = os.Getenv
var _ = strconv.Itoa
