package json

// Replay for the pooled-state obligations (C11): a context handed to one call
// must not reach user code during a later call that was given no context.

import (
	"context"
	"encoding/json"
	"fmt"
	"os"
	"strconv"
	"strings"
	"testing"
)

//PRELUDE

type govcKey struct{}
type govcFooer interface{ Foo() }
type govcT struct{ Got interface{} }

func (t *govcT) Foo() {}
func (t *govcT) UnmarshalJSON(ctx context.Context, b []byte) error {
	if ctx == nil {
		t.Got = "nil-ctx"
		return nil
	}
	t.Got = ctx.Value(govcKey{})
	return nil
}

type govcM struct{}

func (govcM) MarshalJSON(ctx context.Context) ([]byte, error) {
	if ctx == nil {
		return []byte(`"nil-ctx"`), nil
	}
	return []byte(fmt.Sprintf("%q", fmt.Sprint(ctx.Value(govcKey{})))), nil
}

type govcW struct{ X govcFooer }
type govcP struct{ A int }

func TestGovcReplay(t *testing.T) {
	m := govcModel()
	ctx := context.WithValue(context.Background(), govcKey{}, "secret-of-call-A")
	if strings.Contains(m.Function, "arshal") && !strings.Contains(m.Function, "unmarshal") {
		cold, _ := Marshal(govcM{})
		MarshalContext(ctx, govcM{})
		warm, _ := Marshal(govcM{})
		fmt.Printf("REPLAY-RESULT: Marshal before any context call: %s; after MarshalContext(ctxA): %s\n", cold, warm)
		if string(cold) != string(warm) {
			fmt.Println("REPLAY-CONFIRMED: a plain Marshal hands the marshaler the context of an earlier MarshalContext call")
			return
		}
		fmt.Println("REPLAY-NOT-REPRODUCED")
		return
	}
	w0 := govcW{X: &govcT{}}
	Unmarshal([]byte(`{"X":1}`), &w0)
	var p govcP
	UnmarshalContext(ctx, []byte(`{"A":1}`), &p)
	w1 := govcW{X: &govcT{}}
	Unmarshal([]byte(`{"X":1}`), &w1)
	fmt.Printf("REPLAY-RESULT: Unmarshal before any context call saw %v; after UnmarshalContext(ctxA) it saw %v\n", w0.X.(*govcT).Got, w1.X.(*govcT).Got)
	if w0.X.(*govcT).Got != w1.X.(*govcT).Got {
		fmt.Println("REPLAY-CONFIRMED: a plain Unmarshal hands UnmarshalJSON(ctx, ...) the context of an earlier UnmarshalContext call")
		return
	}
	fmt.Println("REPLAY-NOT-REPRODUCED")
}

var _ = json.Marshal
var _ = os.Getenv
var _ = strconv.Itoa
