package json

// Replay for the string-body obligations (C05, C17): the string the model's buffer
// spells (from the cursor to the NUL terminator) and a fixed corpus of malformed
// strings are run through Unmarshal, Valid, Compact and Decoder and compared with
// encoding/json on acceptance and on the decoded value.

import (
	"bytes"
	stdjson "encoding/json"
	"encoding/json"
	"fmt"
	"os"
	"strconv"
	"strings"
	"testing"
)

//PRELUDE

func TestGovcReplay(t *testing.T) {
	m := govcModel()
	var docs []string
	for _, name := range []string{"buf", "src"} {
		b := m.Bytes(name, 'a', 64)
		c := int(m.Int("cursor", 0))
		if c < 0 || c > len(b) {
			c = 0
		}
		b = b[c:]
		if i := bytes.IndexByte(b, 0); i >= 0 {
			b = b[:i]
		}
		if len(b) > 0 {
			docs = append(docs, string(b))
		}
	}
	bs := string(rune(92))
	docs = append(docs, "\"a\x01b\"", "\"a\nb\"", "\"\x1f\"", `"`+bs+`q"`, `"`+bs+`u12"`, `"`+bs+`u12zz"`, `"`+bs+`<"`, `"`+bs+`ud83d`+bs+`ude00"`, `"`+bs+`ud83d`+bs+`u0041"`,
		`"`+bs+`ud83d"`, `"a`+bs+`/b`+bs+`n"`, `"`+bs+`u00e9x"`, `"`+bs+`"`, `"abc`)
	fmt.Printf("REPLAY-INPUT: %d documents (the first ones from the model): %q\n", len(docs), docs)
	for _, d := range docs {
		doc := []byte(d)
		var s1, s2 string
		e1 := Unmarshal(doc, &s1)
		e2 := stdjson.Unmarshal(doc, &s2)
		var s3 string
		e3 := NewDecoder(strings.NewReader(d)).Decode(&s3)
		var c1, c2 bytes.Buffer
		e4 := Compact(&c1, doc)
		e5 := stdjson.Compact(&c2, doc)
		switch {
		case (e1 == nil) != (e2 == nil):
			fmt.Printf("REPLAY-CONFIRMED: Unmarshal(%q) err=%v, encoding/json err=%v\n", d, e1, e2)
			return
		case e1 == nil && s1 != s2:
			fmt.Printf("REPLAY-CONFIRMED: Unmarshal(%q) = %q, encoding/json %q\n", d, s1, s2)
			return
		case (e3 == nil) != (e2 == nil):
			fmt.Printf("REPLAY-CONFIRMED: Decoder.Decode(%q) err=%v, encoding/json err=%v\n", d, e3, e2)
			return
		case Valid(doc) != stdjson.Valid(doc):
			fmt.Printf("REPLAY-CONFIRMED: Valid(%q) = %v, encoding/json %v\n", d, Valid(doc), stdjson.Valid(doc))
			return
		case (e4 == nil) != (e5 == nil):
			fmt.Printf("REPLAY-CONFIRMED: Compact(%q) err=%v, encoding/json err=%v\n", d, e4, e5)
			return
		}
	}
	fmt.Println("REPLAY-NOT-REPRODUCED")
}

var _ = json.Marshal
var _ = os.Getenv
var _ = strconv.Itoa
