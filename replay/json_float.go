package json

// Replay for the float-emitter call sites of the interpreters (C03): non-finite
// values of both float widths, in every position the opcode families cover,
// through every encoder variant. Any output at all is a violation.

import (
	"bytes"
	"encoding/json"
	"fmt"
	"math"
	"os"
	"strconv"
	"testing"
)

//PRELUDE

func TestGovcReplay(t *testing.T) {
	_ = govcModel()
	n32, p32, m32 := float32(math.NaN()), float32(math.Inf(1)), float32(math.Inf(-1))
	n64 := math.NaN()
	type S32 struct {
		A float32
		B *float32
		C float32 `json:",string"`
		D float32 `json:",omitempty"`
	}
	type E32 struct {
		X int
		A float32
	}
	vals := []interface{}{n32, p32, m32, &n32, S32{A: n32}, S32{B: &p32}, S32{C: m32}, S32{D: n32}, &S32{A: p32}, E32{A: n32},
		[]float32{n32}, [1]float32{p32}, map[string]float32{"a": m32}, []interface{}{n32}, struct{ A *float32 }{&n32},
		n64, []float64{n64}, struct{ A float64 }{n64}}
	fmt.Printf("REPLAY-INPUT: %d values holding NaN/+Inf/-Inf in scalar, pointer, struct-field (plain, string, omitempty, last), slice, array, map and interface positions\n", len(vals))
	confirmed := false
	for _, v := range vals {
		outs := map[string][]byte{}
		errs := map[string]error{}
		outs["Marshal"], errs["Marshal"] = Marshal(v)
		outs["MarshalIndent"], errs["MarshalIndent"] = MarshalIndent(v, "", " ")
		outs["MarshalWithOption(Colorize)"], errs["MarshalWithOption(Colorize)"] = MarshalWithOption(v, Colorize(DefaultColorScheme))
		outs["MarshalIndentWithOption(Colorize)"], errs["MarshalIndentWithOption(Colorize)"] = MarshalIndentWithOption(v, "", " ", Colorize(DefaultColorScheme))
		var buf bytes.Buffer
		errs["Encoder.Encode"] = NewEncoder(&buf).Encode(v)
		outs["Encoder.Encode"] = buf.Bytes()
		for _, k := range []string{"Marshal", "MarshalIndent", "MarshalWithOption(Colorize)", "MarshalIndentWithOption(Colorize)", "Encoder.Encode"} {
			if errs[k] == nil {
				fmt.Printf("REPLAY-CONFIRMED: %s(%T %v) = %q without error: not JSON\n", k, v, v, outs[k])
				confirmed = true
			}
		}
	}
	if !confirmed {
		fmt.Println("REPLAY-NOT-REPRODUCED: every non-finite value is rejected with an error")
	}
}

var _ = json.Marshal
var _ = os.Getenv
var _ = strconv.Itoa
