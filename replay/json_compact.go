package json

// Replay for the Compact/Indent buffer-discipline obligations (C18): writing
// into a buffer that already holds data must append exactly what
// encoding/json appends and leave the old contents alone.

import (
	"bytes"
	stdjson "encoding/json"
	"encoding/json"
	"fmt"
	"os"
	"strconv"
	"testing"
)

//PRELUDE

func TestGovcReplay(t *testing.T) {
	m := govcModel()
	src := m.Bytes("src", ' ', 64)
	if !stdjson.Valid(src) {
		src = []byte("[1, 2]")
	}
	n := int(m.Int("bufLen", 2))
	if n <= 0 || n > 16 {
		n = 2
	}
	pre := bytes.Repeat([]byte("X"), n)
	fmt.Printf("REPLAY-INPUT: buffer pre-filled with %q, src %q\n", pre, src)
	var a, b bytes.Buffer
	a.Write(pre)
	b.Write(pre)
	e1 := Compact(&a, src)
	e2 := stdjson.Compact(&b, src)
	fmt.Printf("REPLAY-RESULT: Compact go-json %q (%v), encoding/json %q (%v)\n", a.String(), e1, b.String(), e2)
	bad := a.String() != b.String()
	var c, d bytes.Buffer
	c.Write(pre)
	d.Write(pre)
	e3 := Indent(&c, src, "", " ")
	e4 := stdjson.Indent(&d, src, "", " ")
	fmt.Printf("REPLAY-RESULT: Indent go-json %q (%v), encoding/json %q (%v)\n", c.String(), e3, d.String(), e4)
	if c.String() != d.String() {
		bad = true
	}
	if bad {
		fmt.Println("REPLAY-CONFIRMED: buffer contents differ from encoding/json after writing into a non-empty buffer")
		return
	}
	fmt.Println("REPLAY-NOT-REPRODUCED")
}

var _ = json.Marshal
var _ = os.Getenv
var _ = strconv.Itoa
