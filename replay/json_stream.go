package json

// Replay for the stream refill obligations (C09): the scanners named by the failed
// obligation are driven through Decoder.Decode with every single and double cut of
// documents that exercise their refill branches; a result that depends on the cuts,
// a panic, or a swallowed reader error confirms the violation on the real code.

import (
	"bytes"
	"encoding/json"
	"errors"
	"fmt"
	"io"
	"os"
	"reflect"
	"strconv"
	"testing"
)

//PRELUDE

type govcCutReader struct {
	data []byte
	cuts []int
	pos  int
	fail int
}

var errGovcReplayInjected = errors.New("injected reader failure")

func (r *govcCutReader) Read(p []byte) (int, error) {
	if r.fail >= 0 && r.pos >= r.fail {
		return 0, errGovcReplayInjected
	}
	if r.pos >= len(r.data) {
		return 0, io.EOF
	}
	end := len(r.data)
	for _, c := range r.cuts {
		if c > r.pos {
			end = c
			break
		}
	}
	if r.fail > r.pos && r.fail < end {
		end = r.fail
	}
	n := copy(p, r.data[r.pos:end])
	r.pos += n
	return n, nil
}

type govcReplayStruct struct {
	A  int    `json:"a"`
	Bc string `json:"bc"`
	F  *bool  `json:"f"`
}

func TestGovcReplay(t *testing.T) {
	_ = govcModel()
	bs := string(rune(92))
	docs := []string{`null`, `nulx`, `nxll`, `true`, `trux`, `false`, `falsx`, `[null,true,false]`, `{"f":nulx}`, `{"f":true}`,
		"\"A\xc3\xa9\"", "\"\xf0\x9f\x98\x80\"", `{"` + bs + `u0061":5}`, `{"b` + bs + `u0063":"x"}`, `"` + bs + `ud83d` + bs + `ude00"`, `-12`,
		`"` + string(bytes.Repeat([]byte{0xff}, 520)) + `"`}
	mks := []func() interface{}{func() interface{} { return new(interface{}) }, func() interface{} { return new(govcReplayStruct) }, func() interface{} { return new(string) }, func() interface{} { return new(*bool) }}
	run := func(doc []byte, cuts []int, fail int, mk func() interface{}) (v interface{}, err error) {
		p := mk()
		defer func() {
			if r := recover(); r != nil {
				err = fmt.Errorf("PANIC: %v", r)
			}
		}()
		err = NewDecoder(&govcCutReader{data: doc, cuts: cuts, fail: fail}).Decode(p)
		return reflect.ValueOf(p).Elem().Interface(), err
	}
	fmt.Printf("REPLAY-INPUT: %d documents x every single/double cut x 4 destinations, plus a failing reader\n", len(docs))
	for _, d := range docs {
		doc := []byte(d)
		for _, mk := range mks {
			whole, werr := run(doc, nil, -1, mk)
			var cutsets [][]int
			step := 1
			if len(doc) > 100 {
				step = 101
			}
			for a := 1; a < len(doc); a += step {
				cutsets = append(cutsets, []int{a})
				if len(doc) <= 14 {
					for b := a + 1; b < len(doc); b++ {
						cutsets = append(cutsets, []int{a, b})
					}
				}
			}
			for _, cs := range cutsets {
				got, gerr := run(doc, cs, -1, mk)
				if (gerr == nil) != (werr == nil) || (gerr == nil && !reflect.DeepEqual(got, whole)) || (gerr != nil && len(gerr.Error()) > 5 && gerr.Error()[:5] == "PANIC") {
					short := d
					if len(short) > 40 {
						short = short[:40] + "..."
					}
					fmt.Printf("REPLAY-CONFIRMED: %q delivered with cuts %v decodes to (%v, %v), in one piece to (%v, %v)\n", short, cs, got, gerr, whole, werr)
					return
				}
			}
			if werr == nil && len(doc) < 100 {
				for f := 0; f < len(doc); f++ {
					got, ferr := run(doc, nil, f, mk)
					if ferr == nil && !reflect.DeepEqual(got, whole) {
						fmt.Printf("REPLAY-CONFIRMED: reader failing at byte %d of %q: Decode returns %v with a nil error\n", f, d, got)
						return
					}
					if ferr != nil && !errors.Is(ferr, errGovcReplayInjected) {
						fmt.Printf("REPLAY-CONFIRMED: reader failing at byte %d of %q: Decode reports %q instead of the reader's error\n", f, d, ferr)
						return
					}
				}
			}
		}
	}
	fmt.Println("REPLAY-NOT-REPRODUCED: no chunk dependence, panic or swallowed reader error on the replay corpus")
}

var _ = json.Marshal
var _ = os.Getenv
var _ = strconv.Itoa
